"""Built-in sensitivity mutants: property-breaking edits that keep the SUT
importable.  Applied to a scratch copy of cnvlib/ + skgenome/ (never to /repo)
by `./check selftest sensitivity`.  `expect` lists the oracle clauses any of
which counts as the intended detection.
"""

SEG = "cnvlib/segmentation/__init__.py"

MUTANTS = [
    # ---------------------------------------------------------------- C03 ----
    {"id": "c03-stretch-noop", "property": "C03", "expect": ["T3"],
     "why": "revert of repair 0b7d00e: chained .iat assignment is a no-op under pandas>=3",
     "edits": [{"file": SEG,
                "old": '''    if segments.chromosome.iat[0] == bins_chrom:
        segments.data.iat[0, segments.data.columns.get_loc("start")] = bins_start
    if segments.chromosome.iat[-1] == cnarr.chromosome.iat[-1]:
        segments.data.iat[-1, segments.data.columns.get_loc("end")] = bins_end
''',
                "new": '''    segments.start.iat[0] = bins_start
    segments.end.iat[-1] = bins_end
'''}]},
    {"id": "c03-hmm-assert", "property": "C03", "expect": ["T2"],
     "why": "revert of repair ab72414",
     "edits": [{"file": SEG,
                "old": "    ignore = tuple(ignore) + params.ANTITARGET_ALIASES\n    cdata = cnarr.data.reset_index()",
                "new": "    ignore = tuple(ignore) + params.ANTITARGET_ALIASES\n"
                       "    assert bins_chrom == segments.chromosome.iat[0]\n"
                       "    cdata = cnarr.data.reset_index()"}]},
    {"id": "c03-stretch-unguarded", "property": "C03", "expect": ["T1", "T2", "T4"],
     "why": "effective stretch without the same-chromosome guard moves an hmm segment to a foreign coordinate",
     "edits": [{"file": SEG,
                "old": '''    if segments.chromosome.iat[0] == bins_chrom:
        segments.data.iat[0, segments.data.columns.get_loc("start")] = bins_start
    if segments.chromosome.iat[-1] == cnarr.chromosome.iat[-1]:
        segments.data.iat[-1, segments.data.columns.get_loc("end")] = bins_end
''',
                "new": '''    segments.data.iat[0, segments.data.columns.get_loc("start")] = bins_start
    segments.data.iat[-1, segments.data.columns.get_loc("end")] = bins_end
'''}]},
    {"id": "c03-gene-set", "property": "C03", "expect": ["T4"],
     "why": "gene aggregation through a set loses the order of first appearance",
     "edits": [{"file": SEG,
                "old": "subgenes = [g for g in pd.unique(bin_genes[bin_idx]) if g not in ignore]",
                "new": "subgenes = [g for g in set(bin_genes[bin_idx]) if g not in ignore]"}]},
    {"id": "c03-weight-mean", "property": "C03", "expect": ["T4"],
     "why": "segment weight as mean instead of sum",
     "edits": [{"file": SEG,
                "old": "            seg_wt = bin_weights[bin_idx].sum()",
                "new": "            seg_wt = bin_weights[bin_idx].mean() if len(bin_idx) else 0.0"}]},
    {"id": "c03-haar-end-off-by-one", "property": "C03", "expect": ["T1", "T2"],
     "why": "haar segment end index one bin short for interior segments",
     "edits": [{"file": "cnvlib/segmentation/haar.py",
                "old": '        "end": segEd - 1,',
                "new": '        "end": np.maximum(segSt, segEd - 2 + (segEd == len(I))),'}]},
    {"id": "c03-squash-unweighted", "property": "C03", "expect": ["T5"],
     "why": "hmm state runs summarised by the plain mean",
     "edits": [{"file": "cnvlib/segfilters.py",
                "old": '        out["log2"] = np.average(cnarr["log2"], weights=cnarr["weight"])',
                "new": '        out["log2"] = np.mean(cnarr["log2"])'}]},
    {"id": "c03-swallow-failed-arm", "property": "C03", "expect": ["F1", "T6"],
     "why": "a failed per-arm task is skipped instead of failing the call",
     "edits": [{"file": SEG,
                "old": '''            rets = list(
                pool.map(
                    _ds,''',
                "new": '''            rets = list(
                _gather(pool,
                    _ds,'''},
               {"file": SEG,
                "old": '''def _to_str(s, enc=locale.getpreferredencoding()):''',
                "new": '''def _gather(pool, func, args_iter):
    futs = [pool.submit(func, a) for a in args_iter]
    for fut in futs:
        try:
            yield fut.result()
        except Exception as exc:
            logging.warning("Skipping a chromosome arm that failed: %s", exc)


def _to_str(s, enc=locale.getpreferredencoding()):'''}]},
    {"id": "c03-outlier-cache", "property": "C03", "expect": ["T2", "T6", "T4", "T1", "T3"],
     "why": "module-level cache of the outlier mask keyed on the arm length: state leaks from one arm "
            "to the next inside a worker (and differs between serial and pooled runs)",
     "edits": [{"file": SEG,
                "old": '''    if not len(cnarr):
        return cnarr
    outlier_mask = np.concatenate(
        [
            smoothing.rolling_outlier_quantile(subarr["log2"], width, 0.95, factor)
            for _chrom, subarr in cnarr.by_chromosome()
        ]
    )''',
                "new": '''    if not len(cnarr):
        return cnarr
    key = (len(cnarr), width, factor)
    if key not in _OUTLIER_CACHE:
        _OUTLIER_CACHE[key] = np.concatenate(
            [
                smoothing.rolling_outlier_quantile(subarr["log2"], width, 0.95, factor)
                for _chrom, subarr in cnarr.by_chromosome()
            ]
        )
    outlier_mask = _OUTLIER_CACHE[key]'''},
               {"file": SEG,
                "old": "def drop_outliers(cnarr, width, factor):",
                "new": "_OUTLIER_CACHE = {}\n\n\ndef drop_outliers(cnarr, width, factor):"}]},
    {"id": "c03-probes-all-bins", "property": "C03", "expect": ["T2"],
     "why": "segment_none counts the arm's input bins... of the unfiltered copy kept in meta",
     "edits": [{"file": "cnvlib/segmentation/none.py",
                "old": "            len(cnarr),\n",
                "new": "            len(cnarr) + int((cnarr['weight'] < 0.05).any()),\n"}]},
    # ---------------------------------------------------------------- C09 ----
    {"id": "c09-clock-div", "property": "C09", "expect": ["D4"],
     "why": "revert of repair 759e158",
     "edits": [{"file": "cnvlib/coverage.py",
                "old": "    tot_time = max(time.time() - start_time, 1e-6)",
                "new": "    tot_time = time.time() - start_time"}]},
    {"id": "c09-bare-p-crash", "property": "C09", "expect": ["D3"],
     "why": "revert of repair 50a1e6e: a bare -p (processes=0) reaches ProcessPoolExecutor(max_workers=0)",
     "edits": [{"file": "cnvlib/coverage.py",
                "old": "    if processes is not None and processes < 1:\n",
                "new": "    if False:\n"}]},
    {"id": "c09-bedcov-type-guessing", "property": "C09", "expect": ["D1", "D3", "F1"],
     "why": "revert of repair 061dd98: bin / contig names parsed with type inference and default NA strings",
     "edits": [{"file": "cnvlib/coverage.py",
                "old": '        dtype={"chromosome": str, "gene": str},\n        keep_default_na=False,\n'
                       '        na_values={"gene": [""]},\n',
                "new": ""}]},
    {"id": "c09-count-dups", "property": "C09", "expect": ["D1", "D2"],
     "why": "--count no longer drops duplicate-flagged reads",
     "edits": [{"file": "cnvlib/coverage.py",
                "old": "            read.is_duplicate\n            or read.is_secondary",
                "new": "            read.is_secondary"}]},
    {"id": "c09-mapq-le", "property": "C09", "expect": ["D1", "D2"],
     "why": "--count drops reads whose MAPQ equals the cut-off",
     "edits": [{"file": "cnvlib/coverage.py",
                "old": "            or read.mapq < min_mapq",
                "new": "            or (min_mapq and read.mapq <= min_mapq)"}]},
    {"id": "c09-pos-shift", "property": "C09", "expect": ["D1", "D2"],
     "why": "--count half-open interval shifted by one base",
     "edits": [{"file": "cnvlib/coverage.py",
                "old": "bases += sum(1 for p in read.positions if start <= p < end)",
                "new": "bases += sum(1 for p in read.positions if start < p <= end)"}]},
    {"id": "c09-lost-last-chunk", "property": "C09", "expect": ["D3"],
     "why": "to_chunks loses the last partial chunk",
     "edits": [{"file": "cnvlib/parallel.py",
                "old": "    if k % chunk_size:\n        outfile.close()\n        yield name",
                "new": "    if k % chunk_size and k < chunk_size:\n        outfile.close()\n        yield name"}]},
    {"id": "c09-completion-order", "property": "C09", "expect": ["D3"],
     "why": "chunk tables concatenated in completion order",
     "edits": [{"file": "cnvlib/coverage.py",
                "old": '''            for bed_chunk_fname, table in pool.map(_bedcov, args_iter):
                chunks.append(table)
                rm(bed_chunk_fname)''',
                "new": '''            futs = [pool.submit(_bedcov, a) for a in args_iter]
            for fut in futures.as_completed(futs):
                bed_chunk_fname, table = fut.result()
                chunks.append(table)
                rm(bed_chunk_fname)'''}]},
    {"id": "c09-q1-not-passed", "property": "C09", "expect": ["D1", "D2"],
     "why": "-Q not passed to bedcov for a cut-off of 1",
     "edits": [{"file": "cnvlib/coverage.py",
                "old": "    if min_mapq and min_mapq > 0:",
                "new": "    if min_mapq and min_mapq > 1:"}]},
    {"id": "c09-null-log2-zero", "property": "C09", "expect": ["D1", "D2"],
     "why": "--count reports log2 0 instead of -20 for empty bins",
     "edits": [{"file": "cnvlib/coverage.py",
                "old": "math.log(depth, 2) if depth else NULL_LOG2_COVERAGE,",
                "new": "math.log(depth, 2) if depth else 0.0,"}]},
    {"id": "c09-swallow-broken-pool", "property": "C09", "expect": ["F1"],
     "why": "a dead worker is logged and the partial table returned",
     "edits": [{"file": "cnvlib/coverage.py",
                "old": '''            for bed_chunk_fname, table in pool.map(_bedcov, args_iter):
                chunks.append(table)
                rm(bed_chunk_fname)''',
                "new": '''            try:
                for bed_chunk_fname, table in pool.map(_bedcov, args_iter):
                    chunks.append(table)
                    rm(bed_chunk_fname)
            except Exception as exc:
                if not chunks:
                    raise
                logging.warning("A worker failed (%s); continuing with %d chunks", exc, len(chunks))'''}]},
    {"id": "c09-count-chrom-completion", "property": "C09", "expect": ["D3"],
     "why": "--count gathers chromosomes as they complete",
     "edits": [{"file": "cnvlib/coverage.py",
                "old": '''            for chunk in pool.map(_rdc, args_iter):
                for count, row in chunk:
                    yield [count, row]''',
                "new": '''            futs = [pool.submit(_rdc, a) for a in args_iter]
            for fut in futures.as_completed(futs):
                for count, row in fut.result():
                    yield [count, row]'''}]},
    # ---------------------------------------------------------------- C10 ----
    {"id": "c10-call-filters", "property": "C10", "expect": ["A1", "R1"],
     "why": "revert of repair fcc19bc",
     "edits": [{"file": "cnvlib/call.py",
                "old": "        filters = list(filters)\n",
                "new": ""}]},
    {"id": "c10-ignore-list-extended", "property": "C10", "expect": ["A1"],
     "why": "revert of repair 4360292: by_gene extends the caller's ignore list in place",
     "edits": [{"file": "cnvlib/cnary.py",
                "old": "        ignore = tuple(ignore) + params.ANTITARGET_ALIASES\n",
                "new": "        ignore += params.ANTITARGET_ALIASES\n"}]},
    {"id": "c10-cmd-reference-overwrites", "property": "C10", "expect": ["W1"],
     "why": "cnvkit.py reference -o PATH no longer moves an existing PATH out of the way",
     "edits": [{"file": "cnvlib/commands.py",
                "old": "    core.ensure_path(ref_fname)\n",
                "new": "    os.makedirs(os.path.dirname(os.path.abspath(ref_fname)), exist_ok=True)\n"}]},
    {"id": "c10-ensure-path-bare-name", "property": "C10", "expect": ["W1", "W2"],
     "why": "a bare file name (no directory component) is never moved out of the way",
     "edits": [{"file": "cnvlib/core.py",
                "old": "    if os.path.isfile(fname):\n",
                "new": "    if os.path.dirname(fname) and os.path.isfile(fname):\n"}]},
    {"id": "c10-shortname-tie", "property": "C10", "expect": ["R2"],
     "why": "revert of repair 9d8144c",
     "edits": [{"file": "cnvlib/target.py",
                "old": "    name = min(filter_names(names), key=lambda n: (len(n), n))",
                "new": "    name = min(filter_names(names), key=len)"}]},
    {"id": "c10-call-nocopy", "property": "C10", "expect": ["A1"],
     "why": "do_call works on the caller's array",
     "edits": [{"file": "cnvlib/call.py",
                "old": "    outarr = cnarr.copy()",
                "new": "    outarr = cnarr"}]},
    {"id": "c10-fix-noseed", "property": "C10", "expect": ["R1"],
     "why": "center_by_window no longer reseeds the global RNG",
     "edits": [{"file": "cnvlib/fix.py",
                "old": "    np.random.seed(0xA5EED)\n    shuffle_order",
                "new": "    shuffle_order"}]},
    {"id": "c10-bootstrap-noseed", "property": "C10", "expect": ["R1"],
     "why": "bootstrap CI no longer reseeds the global RNG",
     "edits": [{"file": "cnvlib/segmetrics.py",
                "old": "    np.random.seed(0xA5EED)\n    rand_indices",
                "new": "    rand_indices"}]},
    {"id": "c10-shuffle-noseed", "property": "C10", "expect": ["R1"],
     "why": "GenomicArray.shuffle no longer reseeds the global RNG",
     "edits": [{"file": "skgenome/gary.py",
                "old": "        np.random.seed(0xA5EED)\n        np.random.shuffle(order)",
                "new": "        np.random.shuffle(order)"}]},
    {"id": "c10-ensure-path-dot1", "property": "C10", "expect": ["W1", "W2"],
     "why": "ensure_path always renames to .1 (overwriting an existing backup)",
     "edits": [{"file": "cnvlib/core.py",
                "old": "        while os.path.isfile(bak_fname):\n            cnt += 1\n            bak_fname = f\"{fname}.{cnt}\"\n",
                "new": ""}]},
    {"id": "c10-ensure-path-count", "property": "C10", "expect": ["W1", "W2"],
     "why": "backup suffix derived from the number of existing backups (breaks with gaps .1,.3)",
     "edits": [{"file": "cnvlib/core.py",
                "old": "        while os.path.isfile(bak_fname):\n            cnt += 1\n            bak_fname = f\"{fname}.{cnt}\"\n",
                "new": "        import glob\n        cnt = len([p for p in glob.glob(glob.escape(fname) + '.*')\n"
                       "                   if p[len(fname) + 1:].isdigit()]) + 1\n"
                       "        bak_fname = f\"{fname}.{cnt}\"\n"}]},
    {"id": "c10-bintest-nocopy", "property": "C10", "expect": ["A1"],
     "why": "do_bintest works on the caller's array",
     "edits": [{"file": "cnvlib/bintest.py",
                "old": "    cnarr = cnarr.copy()\n",
                "new": ""}]},
    {"id": "c10-shiftxx-nocopy", "property": "C10", "expect": ["A1"],
     "why": "shift_xx adjusts the caller's array in place",
     "edits": [{"file": "cnvlib/cnary.py",
                "old": "        outprobes = self.copy()\n        if is_xx is None:",
                "new": "        outprobes = self\n        if is_xx is None:"}]},
    {"id": "c10-segment-cache", "property": "C10", "expect": ["R1"],
     "why": "module-level memo of the last segmentation keyed on (sample id, #bins, method)",
     "edits": [{"file": SEG,
                "old": "    if method not in SEGMENT_METHODS:",
                "new": "    memo_key = (cnarr.sample_id, len(cnarr), method, save_dataframe)\n"
                       "    if memo_key in _MEMO and not save_dataframe:\n"
                       "        return _MEMO[memo_key].copy()\n"
                       "    if method not in SEGMENT_METHODS:"},
               {"file": SEG,
                "old": "    cna.sort_columns()\n    if save_dataframe:\n        return cna, rstr\n    return cna",
                "new": "    cna.sort_columns()\n    if save_dataframe:\n        return cna, rstr\n"
                       "    _MEMO[memo_key] = cna.copy()\n    return cna"},
               {"file": SEG,
                "old": "def _to_str(s, enc=locale.getpreferredencoding()):",
                "new": "_MEMO = {}\n\n\ndef _to_str(s, enc=locale.getpreferredencoding()):"}]},
    {"id": "c10-write-then-rename", "property": "C10", "expect": ["W2", "W1"],
     "why": "ensure_path copies the old file to the backup name and truncates the original in place "
            "(a crash between the two steps, or a failed copy, loses the old content)",
     "edits": [{"file": "cnvlib/core.py",
                "old": "        os.rename(fname, bak_fname)\n",
                "new": "        with open(fname) as _src:\n            _old = _src.read()\n"
                       "        os.unlink(fname)\n"
                       "        with open(bak_fname, 'w') as _dst:\n            _dst.write(_old)\n"}]},
]
