"""Picklable task functions for the SimPool-vs-real-executor behaviour script."""
import os

_COUNTER = 0


def square(x):
    return x * x


def mutate_arg(lst):
    lst.append(99)
    return lst


def fail_on_3(x):
    if x == 3:
        raise ValueError("three")
    return x


def die_on_2(x):
    if x == 2:
        os._exit(9)
    return x


def bump_global(_x):
    global _COUNTER
    _COUNTER += 1
    return _COUNTER >= 1


_SHARED = None


def set_shared(value, more=0):
    global _SHARED
    _SHARED = value + more


def read_shared(_x):
    return _SHARED


def bad_init():
    raise RuntimeError("initializer failed")
