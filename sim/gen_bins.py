"""Generated bin-level tables (.cnr-like) for C03 and pipeline datasets for C10.

The generator knows the arm structure it plants (an unambiguous centromere-sized
gap, or none), so oracles never re-implement `by_arm`.
"""
import numpy as np

AUTOSOMES = ["1", "2", "3", "5", "10", "17", "22"]


def chrom_names(tape, n_auto, with_x, with_y, style):
    names = AUTOSOMES[:n_auto]
    if with_x:
        names.append("X")
    if with_y:
        names.append("Y")
    if style == "chr":
        names = ["chr" + n for n in names]
    return names


def gen_cnr(tape, tier, max_chroms=6, size_classes=None, label="cnr", force_mirror_arms=False):
    """Return dict(columns..., arms=[(chrom, i0, i1)], plan=...)."""
    style = tape.choice(["chr", "plain"], label + ".style")
    n_chrom = tape.weighted([(1, 2), (2, 3), (3, 3), (4, 2), (6, 2)], label + ".nchrom")
    n_chrom = min(n_chrom, max_chroms)
    with_x = tape.chance(1, 3, label + ".X")
    with_y = tape.chance(1, 4, label + ".Y")
    n_auto = max(0 if (with_x or with_y) else 1, n_chrom - int(with_x) - int(with_y))
    names = chrom_names(tape, n_auto, with_x, with_y, style)
    # an in-memory table need not list its chromosomes in "natural" order (a GATK-style header
    # puts chrM first; a concatenation of per-chromosome tables may come in any order)
    if len(names) > 1 and tape.chance(1, 4, label + ".chrom_order"):
        names = [names[i] for i in tape.shuffle(range(len(names)), label + ".chrom_perm")]
    rng = np.random.default_rng(tape.subseed(label + ".bulk"))
    has_depth = not tape.chance(1, 8, label + ".nodepth")
    edge_nulls = tape.chance(1, 2, label + ".edge_nulls")
    null_rate = tape.choice([0.0, 0.02, 0.1, 0.4], label + ".null_rate")
    zero_w_rate = tape.choice([0.0, 0.03, 0.15], label + ".zero_w_rate")
    outlier_rate = tape.choice([0.0, 0.01, 0.05], label + ".outlier_rate")
    noise = tape.choice([0.02, 0.1, 0.3], label + ".noise")
    if size_classes is None:
        size_classes = [(1, 1), (2, 1), (5, 2), (50, 4), (400, 3)]
    chroms, starts, ends, genes, log2s, depths, weights = [], [], [], [], [], [], []
    arms = []
    plan_chroms = []
    row = 0
    # "twins": several chromosomes / arms of identical length (anything keyed on a
    # table's shape rather than its content is confused only by these)
    twins = tape.chance(1, 3, label + ".twins")
    # "mirror arms": one chromosome whose two arms have the same number of bins (> 101, so
    # that by_arm looks for a centromere inside each arm again), no bin is filtered, and only
    # one arm holds a second arm-sized gap
    mirror_arms = force_mirror_arms or (
        tape.chance(1, 10, label + ".mirror_arms") and max(c for c, _w in size_classes) >= 400)
    if mirror_arms:
        null_rate = zero_w_rate = outlier_rate = 0.0
        edge_nulls = False
    prev_n = None
    for ci_, cname in enumerate(names):
        cls = tape.weighted(size_classes, label + ".sizeclass")
        n = tape.between(1, cls, label + ".nbins") if cls > 2 else cls
        if twins and prev_n is not None and tape.chance(2, 3, label + ".twin"):
            n = prev_n
        force_mirror = mirror_arms and ci_ == 0
        if force_mirror:
            n = 2 * tape.between(102, 190, label + ".mirror_half")
        prev_n = n
        widths = rng.integers(50, 501, size=n)
        gaps = rng.integers(0, 3001, size=n)
        gaps[rng.random(n) < 0.3] = 0  # abutting bins
        cen = None
        if n >= 160 and (force_mirror or tape.chance(1, 2, label + ".centromere")):
            lo = max(60, int(np.ceil(0.3 * n)))
            hi = n - lo
            if hi > lo:
                cen = int(rng.integers(lo, hi + 1))
                if (twins or force_mirror) and n % 2 == 0 and lo <= n // 2 <= hi:
                    cen = n // 2  # equal-length arms
                gaps[cen] = int(rng.integers(2_000_000, 5_000_001))
                # a second, smaller (but still arm-sized) gap inside one arm: haar and the
                # smoother split arms again with by_arm; the centromere stays the largest gap,
                # so the top-level arm structure is still the planted one
                if force_mirror or tape.chance(1, 2, label + ".gap2"):
                    a0, a1 = (0, cen) if rng.random() < 0.5 else (cen, n)
                    m = max(50, int(round(0.1 * (a1 - a0))))
                    if a1 - a0 > 2 * m + 1:
                        k = a0 + int(rng.integers(m + 1, a1 - a0 - m))
                        gaps[k] = int(rng.integers(100_000, 400_001))
        pos = int(rng.integers(0, 100_000))
        s = np.empty(n, dtype=np.int64)
        e = np.empty(n, dtype=np.int64)
        for i in range(n):
            pos += int(gaps[i]) if i else 0
            s[i] = pos
            pos += int(widths[i])
            e[i] = pos
        # piecewise-constant signal
        n_seg = int(rng.integers(1, 5))
        bps = np.sort(rng.integers(0, n, size=n_seg - 1)) if n > 1 else np.array([], dtype=int)
        levels = rng.choice([-1.0, -0.4, 0.0, 0.0, 0.3, 0.58, 1.0], size=n_seg)
        if n >= 40 and tape.chance(1, 6, label + ".staircase"):
            # a staircase right at the start of the chromosome (two sharp steps within the first
            # 16 bins) followed by further sharp steps: breakpoints that several wavelet levels see
            early = sorted({int(rng.integers(3, 9)), int(rng.integers(9, 17))})
            later = sorted(set(int(x) for x in rng.integers(20, n - 1, size=int(rng.integers(1, 4)))))
            bps = np.array(early + later, dtype=int)
            levels = np.array([float(rng.choice([1.0, -2.0, 2.0, -1.0, 0.0])) for _ in range(len(bps) + 1)])
            for k in range(1, len(levels)):
                if levels[k] == levels[k - 1]:
                    levels[k] += 1.5
            n_seg = len(levels)
        sig = np.empty(n)
        prev = 0
        for k, bp in enumerate(list(bps) + [n]):
            sig[prev:bp] = levels[k]
            prev = bp
        l2 = sig + rng.normal(0, noise, size=n)
        out = rng.random(n) < outlier_rate
        l2[out] += rng.choice([-6.0, 6.0], size=int(out.sum()))
        w = rng.uniform(0.05, 1.0, size=n)
        if not mirror_arms:
            w[rng.random(n) < 0.05] = 1e-4
            # weights sitting exactly on the cut-offs the check passes as min_weight
            w[rng.random(n) < 0.04] = 0.4
        w[rng.random(n) < zero_w_rate] = 0.0
        if not mirror_arms and tape.chance(1, 12, label + ".tiny_weights"):
            # a chromosome whose weights are all minute (but positive): sums far below any
            # "is it zero?" tolerance
            w = np.where(w > 0, w * 1e-10, 0.0)
        dp = np.exp2(l2) * 100.0
        null = rng.random(n) < null_rate
        if edge_nulls:
            if cen is None:
                edge_idx = [0, n - 1]
            else:
                edge_idx = [0, cen - 1, cen, n - 1]
            for ei in edge_idx:
                if rng.random() < 0.5:
                    run = int(rng.integers(1, 4))
                    for j in range(run):
                        k = ei + j if ei in (0, cen) else ei - j
                        if 0 <= k < n:
                            null[k] = True
        dead_arm = None
        if cen is not None and not mirror_arms and tape.chance(1, 3, label + ".dead_arm"):
            # every bin of one arm is unusable (zero weight: always filtered; null coverage:
            # filtered with skip_low), the other arm survives
            a0, a1 = (0, cen) if rng.random() < 0.5 else (cen, n)
            dead_arm = "zero_weight" if rng.random() < 0.5 else "null"
            if dead_arm == "zero_weight":
                w[a0:a1] = 0.0
            else:
                null[a0:a1] = True
        l2[null] = -20.0
        dp[null] = 0.0
        if has_depth and not mirror_arms and tape.chance(1, 8, label + ".zero_depth_mild_log2"):
            # bins without any depth whose log2 was left just above the "low coverage" cut-off
            # (-15): skip_low drops them for their depth alone
            zd = rng.random(n) < 0.08
            l2[zd & ~null] = -14.5
            dp[zd & ~null] = 0.0
        g = _gene_names(rng, n, cname)
        chroms += [cname] * n
        starts += s.tolist()
        ends += e.tolist()
        genes += g
        log2s += l2.tolist()
        depths += dp.tolist()
        weights += w.tolist()
        if cen is None:
            arms.append((cname, row, row + n - 1))
        else:
            arms.append((cname, row, row + cen - 1))
            arms.append((cname, row + cen, row + n - 1))
        plan_chroms.append({"chrom": cname, "bins": n, "centromere_at": cen, "dead_arm": dead_arm,
                            "null_bins": int(null.sum()), "zero_weight": int((w == 0).sum())})
        row += n
    cols = {
        "chromosome": chroms, "start": starts, "end": ends, "gene": genes,
        "log2": log2s, "depth": depths, "weight": weights,
    }
    if not has_depth:
        del cols["depth"]
    return {"columns": cols, "arms": arms, "n": row,
            "plan": {"chroms": plan_chroms, "has_depth": has_depth, "style": style,
                     "mirror_arms": bool(mirror_arms)}}


def _gene_names(rng, n, cname):
    out = []
    i = 0
    k = 0
    while i < n:
        run = int(rng.integers(1, 8))
        r = rng.random()
        if r < 0.04:
            nm = "ATX7qZ"[k % 6]  # a one-character gene name
        elif r < 0.07:
            nm = [" lead", "trail ", "a.b", "x(1)", "p|q", "G=1"][k % 6]  # unusual characters ("N/A" would be read back from a .cnr as missing: reader ground, C08)
        elif r < 0.45:
            nm = f"G{cname}_{k}"
        elif r < 0.55:
            nm = f"G{cname}_{max(0, k - 2)}"  # a name seen before (duplicate, non-adjacent)
        elif r < 0.65:
            nm = f"M{cname}_{k}a,M{cname}_{k}b"
        elif r < 0.8:
            nm = "Antitarget"
        elif r < 0.87:
            nm = "-"
        elif r < 0.92:
            nm = "."
        elif r < 0.96:
            nm = "CGH"
        else:
            nm = "Background"
        for _ in range(min(run, n - i)):
            out.append(nm)
            i += 1
        k += 1
    return out


def make_cna(table, sample_id="verif"):
    import pandas as pd
    from cnvlib.cnary import CopyNumArray

    df = pd.DataFrame(table["columns"])
    return CopyNumArray(df, {"sample_id": sample_id})
