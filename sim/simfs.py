"""Filesystem interposer: records every file-system call the SUT makes through
its `os` / `tempfile` / `open` module globals, makes each one a fault point,
and can inject a crash (SimCrash, a BaseException) before or after the call, or
a returned OSError.

The SUT works on a real scratch directory; a crash leaves the directory as the
kernel would have it at that instant (user-space buffers of open files are
lost: an open file is cut back to a tape-chosen prefix of what was written).
"""
import builtins
import errno
import os as _os
import tempfile as _tempfile
import types

from .ctx import SimCrash

ERRNOS = {"ENOSPC": errno.ENOSPC, "EIO": errno.EIO, "EACCES": errno.EACCES}

# which interposed calls can return an error
ERRORABLE = {"rename", "replace", "open", "write", "makedirs", "mkdir", "mkstemp",
             "fdopen", "close", "unlink", "remove"}


class FsSim:
    def __init__(self, ctx):
        self.ctx = ctx
        self.count = 0
        self.calls = []  # (index, name, brief args)
        self.plan = {}  # call index -> ("crash", "before"|"after") | ("error", ERRNAME)
        self.rate = None  # (num, den, kinds) for tape-driven faults
        self.max_faults = 1
        self.fired = 0
        self.open_files = []
        self.enabled = True
        self.fired_at = []

    def reset_counter(self):
        self.count = 0
        self.calls = []

    def _decide(self, n, name):
        f = self.plan.get(n)
        if f is not None:
            return f
        if self.rate and self.fired < self.max_faults:
            num, den, kinds = self.rate
            if self.ctx.tape.chance(num, den, "fs.fault?"):
                k = self.ctx.tape.choice(list(kinds), "fs.kind")
                if k == "crash":
                    return ("crash", self.ctx.tape.choice(["before", "after"], "fs.when"))
                return ("error", k)
        return None

    def point(self, name, real, args, kwargs, brief=""):
        if not self.enabled:
            return real(*args, **kwargs)
        n = self.count
        self.count += 1
        self.calls.append((n, name, brief))
        f = self._decide(n, name)
        if f is None:
            return real(*args, **kwargs)
        if f[0] == "error":
            if name not in ERRORABLE:
                return real(*args, **kwargs)
            self.fired += 1
            self.fired_at.append((n, name, f))
            self.ctx.fault("fs.error." + f[1])
            self.ctx.event("fs.error", n, name, f[1])
            raise OSError(ERRNOS[f[1]], _os.strerror(ERRNOS[f[1]]) + " (injected)", brief or None)
        # crash
        self.fired += 1
        self.fired_at.append((n, name, f))
        self.ctx.fault("fs.crash")
        self.ctx.event("fs.crash", n, name, f[1])
        if f[1] == "before":
            self.crash_effects()
            raise SimCrash(f"crash before {name}#{n} {brief}")
        real(*args, **kwargs)
        self.crash_effects()
        raise SimCrash(f"crash after {name}#{n} {brief}")

    def crash_effects(self):
        """User-space buffers die with the process."""
        was = self.enabled
        self.enabled = False
        try:
            for fp in list(self.open_files):
                fp._crash()
            self.open_files = []
        finally:
            self.enabled = was


class FileProxy:
    """A text file opened by the SUT for writing; write/close are fault points."""

    def __init__(self, fs, real, path):
        self._fs = fs
        self._real = real
        self._path = path
        self._written = 0
        self.mode = getattr(real, "mode", "w")
        self.name = getattr(real, "name", path)
        fs.open_files.append(self)

    def write(self, s):
        r = self._fs.point("write", self._real.write, (s,), {}, _os.path.basename(str(self._path)))
        self._written += len(s)
        return r

    def writelines(self, lines):
        for ln in lines:
            self.write(ln)

    def flush(self):
        return self._real.flush()

    def close(self):
        if self._real.closed:
            return None
        try:
            return self._fs.point("close", self._real.close, (), {},
                                  _os.path.basename(str(self._path)))
        finally:
            if self in self._fs.open_files and self._real.closed:
                self._fs.open_files.remove(self)
            elif self in self._fs.open_files:
                # an injected error from close(): the descriptor is gone anyway
                try:
                    self._real.close()
                except Exception:
                    pass
                self._fs.open_files.remove(self)

    @property
    def closed(self):
        return self._real.closed

    def __enter__(self):
        return self

    def __exit__(self, *exc):
        if exc and exc[0] is not None and issubclass(exc[0], SimCrash):
            return False
        self.close()
        return False

    def __iter__(self):
        return iter(self._real)

    def __getattr__(self, name):
        return getattr(self._real, name)

    def _crash(self):
        """Cut the file back to a prefix of what had been written."""
        try:
            if not self._real.closed:
                self._real.flush()
                self._real.close()
            size = _os.path.getsize(self._path)
            keep = self._fs.ctx.tape.between(0, size, "fs.torn_prefix")
            keep = size - keep  # 0 on the tape = everything written survives
            with builtins.open(self._path, "r+b") as fh:
                fh.truncate(keep)
            self._fs.ctx.event("fs.torn", _os.path.basename(str(self._path)), size, keep)
        except OSError:
            pass


class PathProxy(types.ModuleType):
    STAT_LIKE = ("isfile", "isdir", "exists", "getsize", "getmtime", "lexists", "islink")

    def __init__(self, fs):
        super().__init__("os.path")
        self.__dict__["_fs"] = fs
        for nm in self.STAT_LIKE:
            self.__dict__[nm] = self._wrap(nm)

    def _wrap(self, nm):
        real = getattr(_os.path, nm)
        fs = self.__dict__["_fs"]

        def call(p, *a, **k):
            return fs.point(nm, real, (p,) + a, k, _os.path.basename(str(p)))

        call.__name__ = nm
        return call

    def __getattr__(self, name):
        return getattr(_os.path, name)


class OsProxy(types.ModuleType):
    WRAPPED = ("rename", "replace", "makedirs", "mkdir", "unlink", "remove", "rmdir",
               "stat", "listdir", "link", "symlink", "truncate")

    def __init__(self, fs):
        super().__init__("os")
        self.__dict__["_fs"] = fs
        self.__dict__["path"] = PathProxy(fs)
        for nm in self.WRAPPED:
            self.__dict__[nm] = self._wrap(nm)

    def _wrap(self, nm):
        real = getattr(_os, nm)
        fs = self.__dict__["_fs"]

        def call(*a, **k):
            brief = _os.path.basename(str(a[0])) if a else ""
            if nm in ("rename", "replace", "link") and len(a) > 1:
                brief += "->" + _os.path.basename(str(a[1]))
            return fs.point(nm, real, a, k, brief)

        call.__name__ = nm
        return call

    def fdopen(self, fd, *a, **k):
        fs = self.__dict__["_fs"]
        real = fs.point("fdopen", _os.fdopen, (fd,) + a, k, "")
        mode = a[0] if a else k.get("mode", "r")
        if "w" in mode or "a" in mode or "+" in mode:
            try:
                path = _os.readlink(f"/proc/self/fd/{fd}")
            except OSError:
                path = getattr(real, "name", "")
            return FileProxy(fs, real, path)
        return real

    def __getattr__(self, name):
        return getattr(_os, name)


class TempfileProxy(types.ModuleType):
    def __init__(self, fs):
        super().__init__("tempfile")
        self.__dict__["_fs"] = fs

    def mkstemp(self, *a, **k):
        fs = self.__dict__["_fs"]
        return fs.point("mkstemp", _tempfile.mkstemp, a, k, k.get("prefix", ""))

    def __getattr__(self, name):
        return getattr(_tempfile, name)


def make_open(fs):
    def sim_open(file, mode="r", *a, **k):
        if isinstance(file, (str, bytes, _os.PathLike)) and any(c in mode for c in "wax+"):
            real = fs.point("open", builtins.open, (file, mode) + a, k,
                            _os.path.basename(str(file)))
            return FileProxy(fs, real, file)
        return builtins.open(file, mode, *a, **k)

    return sim_open


def snapshot_dir(root):
    """{relative name: bytes} of every regular file under root."""
    out = {}
    for d, _dirs, files in _os.walk(root):
        for f in sorted(files):
            p = _os.path.join(d, f)
            rel = _os.path.relpath(p, root)
            try:
                with builtins.open(p, "rb") as fh:
                    out[rel] = fh.read()
            except OSError:
                out[rel] = None
    return out
