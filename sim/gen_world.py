"""C10 world: one small, mutually consistent pipeline dataset per run.

Built with plain numpy/pandas plus the GenomicArray / CopyNumArray constructors
only -- no pipeline step of the SUT is executed while building it, so the
process that runs the history starts from a pristine state.
"""
import numpy as np

ACCESSIONS = ["ref|GENE{a}", "ref|GENE{b}", "ens|ENST{n:05d}", "mRNA|JX{n:05d}", "ccds|CCDS{n}.1"]


def _nozyg(vdf):
    df = vdf.drop(columns=[c for c in ("zygosity", "n_zygosity") if c in vdf.columns])
    df = df.sort_values(["chromosome", "start"], kind="mergesort", ascending=[False, True])
    return df.set_axis(df.index * 2 + 3)


def gen_world(tape, tier):
    import pandas as pd
    from cnvlib.cnary import CopyNumArray as CNA
    from skgenome import GenomicArray as GA

    # "roman": a genome without integer-named chromosomes (yeast / C. elegans style): no name matches
    # the autosome pattern, so autosomes() and friends take their "nothing to select" paths
    style = tape.weighted([("chr", 3), ("plain", 3), ("roman", 2)], "w.style")
    n_auto = tape.between(2, 4, "w.nauto")
    with_x = tape.chance(2, 3, "w.X")
    with_y = tape.chance(1, 3, "w.Y")
    names = ["1", "2", "5", "17"][:n_auto] + (["X"] if with_x else []) + (["Y"] if with_y else [])
    if style == "chr":
        names = ["chr" + n for n in names]
    elif style == "roman":
        names = ["chrI", "chrII", "chrIII", "chrIV"][:n_auto] + (["chrX"] if with_x and with_y else [])
    rng = np.random.default_rng(tape.subseed("w.bulk"))
    max_bins = tape.choice([30, 60, 150], "w.maxbins")
    sample_female = tape.chance(1, 2, "w.female")

    t_rows, a_rows = [], []
    bait_rows = []
    access_rows = []
    chrom_sizes = {}
    truth = []  # (chrom, start, end, level)
    gene_i = 0
    for ci, chrom in enumerate(names):
        n = int(rng.integers(20, max_bins + 1))
        pos = int(rng.integers(200_000, 400_000))
        acc_start = pos - int(rng.integers(10_000, 160_000))
        n_seg = int(rng.integers(1, 4))
        bps = sorted(set(int(x) for x in rng.integers(1, n, size=n_seg - 1))) if n > 2 else []
        level_choices = [-1.0, -0.5, 0.0, 0.0, 0.4, 0.58, 1.0, -3.0, 1.7]
        levels = [float(rng.choice(level_choices)) for _ in range(len(bps) + 1)]
        if len(levels) == 3 and rng.random() < 0.35:
            # high-level amplification / deep deletion on both sides of a neutral stretch
            x = float(rng.choice([1.7, -3.0, 2.3]))
            levels = [x, 0.0, x]
        seg_id = 0
        seg_start = None
        i = 0
        while i < n:
            run = int(rng.integers(1, 7))
            label_kind = rng.random()
            a, b = gene_i, gene_i + 1
            gene_i += 2
            if label_kind < 0.5:
                gname = f"GENE{a}"
                accs = [f"ref|GENE{a}"]
            elif label_kind < 0.75:
                # two accessions of equal length shared by all baits of the gene:
                # shortest_name() has to break the tie
                gname = f"GENE{a}"
                accs = [f"ref|GENE{a}", f"ref|GENE{b}", f"mRNA|JX{a:05d}"]
            elif label_kind < 0.9:
                gname = f"GENE{a}"
                accs = [f"ens|ENST{a:05d}", f"ccds|CCDS{a}.1", f"ref|GENE{a}"]
            else:
                gname = "-"
                accs = ["-"]
            for _ in range(min(run, n - i)):
                if bps and seg_id < len(bps) and i == bps[seg_id]:
                    seg_id += 1
                gap = int(rng.integers(200, 3000)) if rng.random() < 0.75 else int(rng.integers(20_000, 120_000))
                if i:
                    if gap >= 20_000:
                        # room for antitarget bins
                        k = max(1, gap // 40_000)
                        a0 = pos + 1000
                        a1 = pos + gap - 1000
                        step = (a1 - a0) // k
                        for j in range(k):
                            a_rows.append((chrom, a0 + j * step, a0 + (j + 1) * step, "Antitarget",
                                           levels[min(seg_id, len(levels) - 1)]))
                    pos += gap
                width = int(rng.integers(100, 600))
                extra = [x for x in accs]
                if len(accs) > 1 and rng.random() < 0.5:
                    extra = accs + [f"mRNA|AF{int(rng.integers(0, 99999)):05d}"]
                t_rows.append((chrom, pos, pos + width, gname, levels[min(seg_id, len(levels) - 1)]))
                bait_rows.append((chrom, pos, pos + width, ",".join(extra)))
                if rng.random() < 0.04:
                    bait_rows.append((chrom, pos + width, pos + width, ",".join(extra)))  # zero width
                pos += width
                i += 1
        chrom_sizes[chrom] = pos + int(rng.integers(200_000, 400_000))
        # accessible regions: 1-3 pieces covering the chromosome
        cuts = sorted(int(x) for x in rng.integers(acc_start + 1000, chrom_sizes[chrom] - 1000,
                                                   size=int(rng.integers(0, 3))))
        prev = max(0, acc_start)
        for c in cuts:
            if c - prev > 5000:
                access_rows.append((chrom, prev, c - 2000))
                prev = c
        access_rows.append((chrom, prev, chrom_sizes[chrom]))

    def frame(rows, cols):
        return pd.DataFrame.from_records(rows, columns=cols)

    tb = frame(t_rows, ["chromosome", "start", "end", "gene", "_level"])
    ab = frame(a_rows, ["chromosome", "start", "end", "gene", "_level"]) if a_rows else \
        frame([], ["chromosome", "start", "end", "gene", "_level"]).astype(
            {"chromosome": str, "start": int, "end": int, "gene": str, "_level": float})

    def coverage(bins, base, sd):
        n = len(bins)
        l2 = base + rng.normal(0, sd, size=n) + bins["_level"].to_numpy()
        null = rng.random(n) < 0.03
        l2[null] = -20.0
        dp = np.where(null, 0.0, np.exp2(l2))
        df = bins[["chromosome", "start", "end", "gene"]].copy()
        df["log2"] = l2
        df["depth"] = dp
        return df

    tcov = coverage(tb, 5.0, 0.25)
    acov = coverage(ab, 0.5, 0.4)
    union = pd.concat([tb, ab], ignore_index=True)
    order = np.lexsort((union["start"].to_numpy(),
                        union["chromosome"].map({c: i for i, c in enumerate(names)}).to_numpy()))
    union = union.iloc[order].reset_index(drop=True)
    n_u = len(union)
    is_t = (union["gene"] != "Antitarget").to_numpy()
    ref = union[["chromosome", "start", "end", "gene"]].copy()
    ref_l2 = np.where(is_t, 5.0, 0.5) + rng.normal(0, 0.2, size=n_u)
    bad = rng.random(n_u) < 0.03
    ref_l2[bad] = -6.0
    ref["log2"] = ref_l2
    ref["depth"] = np.exp2(ref_l2)
    gc = rng.uniform(0.32, 0.68, size=n_u)
    gc[rng.random(n_u) < 0.03] = 0.8
    ref["gc"] = gc
    ref["rmask"] = rng.uniform(0, 1, size=n_u)
    spread = rng.uniform(0.02, 0.5, size=n_u)
    spread[rng.random(n_u) < 0.02] = 1.3
    ref["spread"] = spread

    # sibling references over the same bins under the same name (what `reference` always writes):
    # one without the rmask column, one with other values
    ref_nomask = ref.drop(columns=["rmask"])
    ref_alt = ref.copy()
    ref_alt["log2"] = ref_l2 + rng.normal(0, 0.3, size=n_u)
    ref_alt["depth"] = np.exp2(ref_alt["log2"].to_numpy())
    ref_alt["spread"] = rng.uniform(0.02, 0.5, size=n_u)
    ref_alt["gc"] = rng.uniform(0.32, 0.68, size=n_u)
    # a reference in which every bin passes fix's bad-bin mask (so that "keep the good bins"
    # keeps them all)
    ref_clean = ref.copy()
    ref_clean["log2"] = np.where(is_t, 5.0, 0.5) + rng.normal(0, 0.1, size=n_u)
    ref_clean["depth"] = np.exp2(ref_clean["log2"].to_numpy())
    ref_clean["gc"] = rng.uniform(0.35, 0.65, size=n_u)
    ref_clean["spread"] = rng.uniform(0.02, 0.4, size=n_u)
    # a sample whose capture mostly failed: most target bins without coverage
    tcov_null = coverage(tb, 5.0, 0.25)
    dead = rng.random(len(tcov_null)) < 0.7
    tcov_null.loc[dead, "log2"] = -20.0
    tcov_null.loc[dead, "depth"] = 0.0
    # accessible regions as computed on the fly: contigs in another order than the natural one,
    # row labels left over from a subsetting
    acc_df = frame(access_rows, ["chromosome", "start", "end"])
    acc_unsorted = pd.concat([acc_df[acc_df["chromosome"] == c] for c in reversed(names)])
    acc_unsorted = acc_unsorted.set_axis(acc_unsorted.index * 2 + 5)
    # regions with intervals nested inside / overlapping earlier ones
    nest_rows = []
    for (c, s_, e_) in access_rows[:6]:
        nest_rows.append((c, s_, e_))
        if e_ - s_ > 4000:
            nest_rows.append((c, s_ + 1000, s_ + 2000))
            nest_rows.append((c, s_ + 1500, s_ + 3500))
    regions_nested = frame(sorted(nest_rows, key=lambda r: (names.index(r[0]), r[1], -r[2])),
                           ["chromosome", "start", "end"])
    # a second sample over the same bins (deeper, other noise)
    tcov_b = coverage(tb, 6.0, 0.2)
    acov_b = coverage(ab, 1.5, 0.3)

    # a ready-made ratio table over the same bins, with segments from the truth
    cnr = union[["chromosome", "start", "end", "gene"]].copy()
    lvl = union["_level"].to_numpy()
    l2 = lvl + rng.normal(0, np.where(is_t, 0.12, 0.3), size=n_u)
    null = rng.random(n_u) < 0.03
    l2[null] = -20.0
    cnr["log2"] = l2
    cnr["depth"] = np.where(null, 0.0, np.exp2(l2) * np.where(is_t, 100.0, 3.0))
    w = rng.uniform(0.1, 1.0, size=n_u)
    w[rng.random(n_u) < 0.04] = 0.0
    cnr["weight"] = w
    seg_rows = []
    cchrom = cnr["chromosome"].to_numpy()
    i0 = 0
    for i in range(1, n_u + 1):
        if i == n_u or cchrom[i] != cchrom[i0] or lvl[i] != lvl[i0]:
            sl = slice(i0, i)
            ws = w[sl]
            ok = ~null[sl]
            vals = l2[sl][ok]
            wts = ws[ok]
            mean = float(np.average(vals, weights=wts)) if len(vals) and wts.sum() > 0 else float(lvl[i0])
            genes = [g for g in dict.fromkeys(cnr["gene"].iloc[sl]) if g not in ("-", "Antitarget")]
            seg_rows.append((cchrom[i0], int(cnr["start"].iloc[i0]), int(cnr["end"].iloc[i - 1]),
                             ",".join(genes) if genes else "-", mean,
                             float(np.average(cnr["depth"].to_numpy()[sl], weights=ws)) if ws.sum() > 0 else 0.0,
                             int(i - i0), float(ws.sum())))
            i0 = i
    cns = frame(seg_rows, ["chromosome", "start", "end", "gene", "log2", "depth", "probes", "weight"])

    # the same segments with segmetrics-style columns (so that the 'ci' / 'sem'
    # filters of `call` are reachable in a one-step history)
    cns_stats = cns.copy()
    half = rng.uniform(0.02, 0.5, size=len(cns))
    cns_stats["ci_lo"] = cns["log2"].to_numpy() - half
    cns_stats["ci_hi"] = cns["log2"].to_numpy() + half * rng.uniform(0.5, 1.5, size=len(cns))
    cns_stats["sem"] = rng.uniform(0.01, 0.4, size=len(cns))
    # segmetrics-style columns in which no two neighbouring segments fall in the same
    # gain / neutral / loss class: the `ci` and `sem` filters of `call` then merge nothing
    cns_alt = cns.copy()
    sign = np.where(np.arange(len(cns_alt)) % 2 == 0, 1.0, -1.0)
    cns_alt["ci_lo"] = np.where(sign > 0, 0.1, -0.6)
    cns_alt["ci_hi"] = np.where(sign > 0, 0.6, -0.1)
    cns_alt["sem"] = 0.01
    cns_alt["log2"] = np.where(sign > 0, 0.35, -0.35)
    meta = {"sample_id": "S1"}
    baits_df = frame(bait_rows, ["chromosome", "start", "end", "gene"])
    if rng.random() < 0.5:
        # a strand per gene; overlapping/abutting baits of different genes then mix strands
        st = {g: ("+" if rng.random() < 0.5 else "-") for g in dict.fromkeys(baits_df["gene"])}
        baits_df["strand"] = [st[g] for g in baits_df["gene"]]
    # a ratio table on which no segmentation filter can fire (no null bins, no zero weights,
    # no outliers): the only case in which the filtered table could alias the caller's
    cnr_clean = cnr.copy()
    cl2 = lvl + rng.normal(0, 0.05, size=n_u)
    cnr_clean["log2"] = cl2
    cnr_clean["depth"] = np.exp2(cl2) * np.where(is_t, 100.0, 3.0)
    cnr_clean["weight"] = rng.uniform(0.5, 1.0, size=n_u)
    # the same table with every chromosome's coordinates mirrored: same chromosome names and bin
    # counts as `cnr`, other gap structure (state keyed on a table's shape is confused by this)
    parts = []
    for chrom in names:
        sub = cnr[cnr["chromosome"] == chrom].iloc[::-1].copy()
        if len(sub):
            top = int(sub["end"].max()) + 1000
            s_new = top - sub["end"].to_numpy()
            e_new = top - sub["start"].to_numpy()
            sub["start"], sub["end"] = s_new, e_new
            parts.append(sub)
    cnr_mirror = pd.concat(parts, ignore_index=True) if parts else cnr.copy()
    # heterozygous / homozygous SNVs (and a few indels) over the targeted bins, tumour
    # frequencies shifted where the truth has a copy-number change; optional paired normal
    from cnvlib.vary import VariantArray as VA
    v_rows = []
    paired = bool(rng.random() < 0.5)
    dense = bool(rng.random() < 0.3)  # > 50 variants in a segment: the re-segmentation path
    for (chrom, start, end, _g, level) in t_rows:
        k = int(rng.integers(0, 3)) if not dense else int(rng.integers(2, 7))
        for pos_v in sorted(set(int(x) for x in rng.integers(start, max(start + 1, end), size=k))):
            zyg = float(rng.choice([0.5, 0.5, 0.5, 1.0, 0.0]))
            depth = int(rng.integers(8, 200))
            shift = 0.0 if zyg != 0.5 else 0.18 * np.tanh(level) * (1 if rng.random() < 0.5 else -1)
            f = min(1.0, max(0.0, (zyg if zyg != 0.5 else 0.5 + shift) + float(rng.normal(0, 0.04))))
            ac = int(round(f * depth))
            refb, altb = ("A", "G") if rng.random() < 0.9 else ("AT", "A")
            row = [chrom, pos_v, pos_v + len(refb), refb, altb, bool(rng.random() < 0.05), zyg,
                   float(depth), float(ac), ac / depth]
            if paired:
                nd = int(rng.integers(8, 120))
                nf = min(1.0, max(0.0, zyg + float(rng.normal(0, 0.03))))
                row += [zyg, float(nd), float(round(nf * nd)), round(nf * nd) / nd]
            v_rows.append(tuple(row))
    v_cols = ["chromosome", "start", "end", "ref", "alt", "somatic", "zygosity", "depth", "alt_count",
              "alt_freq"] + (["n_zygosity", "n_depth", "n_alt_count", "n_alt_freq"] if paired else [])
    if v_rows:
        vdf = frame(v_rows, v_cols)
    else:
        vdf = frame([(names[0], 1000, 1001, "A", "G", False, 0.5, 30.0, 15.0, 0.5)], v_cols[:10])
    # one chromosome of baits, no zero-width rows (nothing for `target --split` to do when the
    # average size is large: the "return the input" fast paths)
    b1 = baits_df[(baits_df["chromosome"] == names[0]) & (baits_df["start"] != baits_df["end"])]
    world = {
        "varr": VA(vdf, {"sample_id": "S1"}),
        # what load_het_snps returns when no record passes its filters: a table without rows
        "varr_empty": VA(vdf.iloc[0:0].reset_index(drop=True), {"sample_id": "S1"}),
        # allele frequencies only (no genotype columns), rows in the lexical chromosome order of a
        # plain-sorted VCF and carrying the row labels of an earlier subsetting
        "varr_nozyg": VA(_nozyg(vdf), {"sample_id": "S1"}),
        "baits_chr1": GA(b1.reset_index(drop=True), {"sample_id": "baits"}),
        "baits": GA(baits_df, {"sample_id": "baits"}),
        "access": GA(frame(access_rows, ["chromosome", "start", "end"]), {"sample_id": "access"}),
        "tbins": GA(tb[["chromosome", "start", "end", "gene"]].copy(), {"sample_id": "targets"}),
        "tcov": CNA(tcov, dict(meta)),
        "acov": CNA(acov, dict(meta)),
        "ref": CNA(ref, {"sample_id": "reference"}),
        "ref_nomask": CNA(ref_nomask, {"sample_id": "reference"}),
        "ref_alt": CNA(ref_alt, {"sample_id": "reference"}),
        "ref_clean": CNA(ref_clean, {"sample_id": "reference"}),
        "tcov_b": CNA(tcov_b, {"sample_id": "S2"}),
        "tcov_null": CNA(tcov_null, {"sample_id": "S3"}),
        "access_unsorted": GA(acc_unsorted, {"sample_id": "access"}),
        "regions_nested": GA(regions_nested, {"sample_id": "nested"}),
        "acov_b": CNA(acov_b, {"sample_id": "S2"}),
        "cnr": CNA(cnr, dict(meta)),
        "cnr_clean": CNA(cnr_clean, dict(meta)),
        "cnr_mirror": CNA(cnr_mirror, dict(meta)),
        # one chromosome only (sorted, non-overlapping): the "nothing to do" fast paths of
        # merge / flatten return their input table
        "cnr_chr1": CNA(cnr[cnr["chromosome"] == names[0]].reset_index(drop=True), dict(meta)),
        # an amplicon / whole-genome style table: no off-target bins at all
        "cnr_ontarget": CNA(cnr[cnr["gene"] != "Antitarget"].reset_index(drop=True), dict(meta)),
        # what a filtered / concatenated table looks like: target bins first, then the off-target
        # ones, row labels with gaps
        "cnr_relabelled": CNA(pd.concat([cnr[cnr["gene"] != "Antitarget"], cnr[cnr["gene"] == "Antitarget"]]
                                        ).pipe(lambda d: d.set_axis(d.index * 2 + 11)), dict(meta)),
        "cns_relabelled": CNA(cns.set_axis(cns.index * 3 + 2), dict(meta)),
        "cns": CNA(cns, dict(meta)),
        "cns_stats": CNA(cns_stats, dict(meta)),
        "cns_stats_alt": CNA(cns_alt, dict(meta)),
    }
    info = {
        "chroms": names, "chrom_sizes": chrom_sizes, "sample_female": sample_female,
        "n_targets": len(tb), "n_antitargets": len(ab), "n_segments": len(cns),
        "label_ties": sum(1 for r in bait_rows if r[3].count("ref|") > 1),
        "baits_stranded": "strand" in baits_df.columns, "n_variants": len(vdf), "variants_paired": paired,
    }
    return world, info
