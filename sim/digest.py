"""Canonical forms, structural comparison and digests of SUT values.

`canon(obj)` turns tables / arrays / containers / exceptions into a nested,
picklable structure.  Verdicts are taken with `diff(a, b, rtol)` (tolerance on
floats, exact on everything else), never by comparing hashes of rounded floats
(two values one ulp apart can straddle a rounding boundary).  `digest()` is for
logs, identity of cases and the determinism self-test only.
"""
import hashlib
import re

import numpy as np
import pandas as pd

META_EXEMPT = ("chr_x", "chr_y")  # label cache explicitly exempted by C10

_ADDR = re.compile(r"0x[0-9a-fA-F]{6,}")
_TMP = re.compile(r"(/dev/shm|/tmp|/var/tmp)/[^\s'\":,)]+")


def mask_text(s):
    s = _ADDR.sub("0xADDR", str(s))
    s = _TMP.sub("<TMP>", s)
    return s


def _kind_of_dtype(dt):
    if isinstance(dt, pd.CategoricalDtype):
        return "cat"
    try:
        k = np.dtype(dt).kind
    except TypeError:
        k = None
    if k is None:
        # pandas extension dtypes
        if pd.api.types.is_bool_dtype(dt):
            return "bool?"
        if pd.api.types.is_integer_dtype(dt):
            return "int?"
        if pd.api.types.is_float_dtype(dt):
            return "float?"
        # object and pandas' string dtype are the same kind: by_arm legally
        # re-types the caller's chromosome column (gary.py:259)
        return "str"
    if k == "b":
        return "bool"
    if k in "iu":
        return "int"
    if k == "f":
        return "float"
    if k in "OUS":
        return "str"
    return str(dt)


def _canon_values(arr_like, kind):
    if kind in ("int", "bool"):
        return np.asarray(arr_like)
    if kind == "float":
        return np.asarray(arr_like, dtype=float)
    # everything else value by value
    out = []
    for v in list(arr_like):
        out.append(canon(v))
    return tuple(out)


def _canon_index(idx):
    if isinstance(idx, pd.RangeIndex):
        return ("range", int(idx.start), int(idx.stop), int(idx.step))
    if isinstance(idx, pd.MultiIndex):
        return ("multi", tuple(canon(t) for t in idx.tolist()))
    kind = _kind_of_dtype(idx.dtype)
    return ("index", kind, _canon_values(idx.values, kind))


def canon(obj, _depth=0):
    if _depth > 12:
        return ("deep", type(obj).__name__)
    if obj is None or isinstance(obj, (bool, str)):
        return obj
    if isinstance(obj, (int, np.integer)) and not isinstance(obj, (bool, np.bool_)):
        return int(obj)
    if isinstance(obj, (np.bool_,)):
        return bool(obj)
    if isinstance(obj, (float, np.floating)):
        return ("f", float(obj))
    if isinstance(obj, bytes):
        return ("bytes", obj)
    if isinstance(obj, pd.DataFrame):
        cols = []
        for name in obj.columns:
            col = obj[name]
            if isinstance(col, pd.DataFrame):  # duplicate column names
                cols.append((canon(name), "dup", canon(col.values.tolist())))
                continue
            kind = _kind_of_dtype(col.dtype)
            cols.append((canon(name), kind, _canon_values(col.values, kind)))
        return ("df", len(obj), _canon_index(obj.index), tuple(cols))
    if isinstance(obj, pd.Series):
        kind = _kind_of_dtype(obj.dtype)
        return ("ser", canon(obj.name), _canon_index(obj.index),
                kind, _canon_values(obj.values, kind))
    if isinstance(obj, pd.Index):
        return _canon_index(obj)
    if isinstance(obj, np.ndarray):
        kind = _kind_of_dtype(obj.dtype)
        if kind in ("int", "bool", "float"):
            return ("nd", kind, obj.shape, _canon_values(obj, kind))
        return ("nd", kind, obj.shape, tuple(canon(v, _depth + 1) for v in obj.ravel().tolist()))
    if hasattr(obj, "data") and hasattr(obj, "meta") and isinstance(
            getattr(obj, "data", None), pd.DataFrame):
        meta = obj.meta if isinstance(obj.meta, dict) else {}
        meta = {k: v for k, v in meta.items() if k not in META_EXEMPT}
        return ("ga", type(obj).__name__, canon(obj.data, _depth + 1),
                canon(meta, _depth + 1))
    if isinstance(obj, dict):
        items = [(canon(k, _depth + 1), canon(v, _depth + 1)) for k, v in obj.items()]
        items.sort(key=lambda kv: repr(kv[0]))
        return ("dict", tuple(items))
    if isinstance(obj, (list, tuple)):
        tag = "list" if isinstance(obj, list) else "tuple"
        if hasattr(obj, "_fields"):
            tag = "ntuple:" + type(obj).__name__
        return (tag, tuple(canon(v, _depth + 1) for v in obj))
    if isinstance(obj, (set, frozenset)):
        vals = [canon(v, _depth + 1) for v in obj]
        vals.sort(key=repr)
        return ("set", tuple(vals))
    if isinstance(obj, BaseException):
        return ("exc", type(obj).__name__, mask_text(obj))
    if isinstance(obj, (pd.Timestamp,)):
        return ("ts", str(obj))
    if obj is pd.NA:
        return ("na",)
    return ("repr", type(obj).__name__, mask_text(repr(obj)))


def _is_arr(x):
    return isinstance(x, np.ndarray)


def diff(a, b, rtol=1e-9, atol=1e-12, path="$"):
    """First difference between two canonical forms, or None."""
    if _is_arr(a) or _is_arr(b):
        if not (_is_arr(a) and _is_arr(b)):
            return f"{path}: array vs {type(b).__name__ if _is_arr(a) else type(a).__name__}"
        if a.shape != b.shape:
            return f"{path}: shape {a.shape} != {b.shape}"
        if a.dtype.kind == "f" or b.dtype.kind == "f":
            if rtol == 0 and atol == 0:
                ok = (a == b) | (np.isnan(a) & np.isnan(b))
            else:
                with np.errstate(invalid="ignore"):
                    ok = np.isclose(a, b, rtol=rtol, atol=atol, equal_nan=True)
                    ok |= (a == b)  # equal infinities
        else:
            ok = a == b
        if np.all(ok):
            return None
        i = int(np.argmin(ok.ravel()))
        return f"{path}[{i}]: {a.ravel()[i]!r} != {b.ravel()[i]!r} ({int((~ok).sum())} of {ok.size} differ)"
    if isinstance(a, tuple) and isinstance(b, tuple):
        if len(a) == 2 and len(b) == 2 and a[0] == "f" and b[0] == "f":
            x, y = a[1], b[1]
            if x == y or (x != x and y != y):
                return None
            if (rtol or atol) and abs(x - y) <= atol + rtol * abs(y):
                return None
            return f"{path}: {x!r} != {y!r}"
        if len(a) != len(b):
            return f"{path}: length {len(a)} != {len(b)} ({_short(a)} vs {_short(b)})"
        for i, (x, y) in enumerate(zip(a, b)):
            d = diff(x, y, rtol, atol, f"{path}.{_seg(a, i)}")
            if d:
                return d
        return None
    if type(a) is not type(b) or a != b:
        return f"{path}: {_short(a)} != {_short(b)}"
    return None


def _seg(t, i):
    if i == 0 or not isinstance(t[0], str):
        return str(i)
    return f"{t[0]}{i}"


def _short(x, n=80):
    s = repr(x)
    return s if len(s) <= n else s[: n - 3] + "..."


def _feed(h, c):
    if _is_arr(c):
        if c.dtype.kind == "f":
            h.update(b"F")
            h.update(",".join("%.9g" % v for v in c.ravel()).encode())
        else:
            h.update(b"A" + str(c.dtype.kind).encode())
            h.update(",".join(str(v) for v in c.ravel().tolist()).encode())
        h.update(str(c.shape).encode())
    elif isinstance(c, tuple):
        if len(c) == 2 and c[0] == "f":
            h.update(("f%.9g" % c[1]).encode())
        else:
            h.update(b"(")
            for x in c:
                _feed(h, x)
            h.update(b")")
    else:
        h.update(repr(c).encode())
        h.update(b";")


def digest(c):
    """Short hex digest of a canonical form (floats at 9 significant digits)."""
    h = hashlib.blake2b(digest_size=8)
    _feed(h, c)
    return h.hexdigest()


def describe(c, n=160):
    """One-line human description of a canonical form."""
    if isinstance(c, tuple) and c:
        if c[0] == "ga":
            df = c[2]
            return f"{c[1]}[{df[1]} rows x {len(df[3])} cols]"
        if c[0] == "df":
            return f"DataFrame[{c[1]} rows x {len(c[3])} cols]"
        if c[0] == "exc":
            return f"raises {c[1]}: {c[2][:100]}"
    return _short(c, n)


def fingerprint(obj):
    """Cheap exact-content fingerprint of a world object, used by A1 to skip the full
    canonical comparison when nothing changed.  Equal fingerprints <=> (up to hash
    collisions) equal content incl. dtypes, column order, index and meta; a mismatch is
    only a hint - the caller then falls back to canon() + diff(), which decides."""
    import hashlib

    h = hashlib.blake2b(digest_size=16)
    data = getattr(obj, "data", None)
    if isinstance(data, pd.DataFrame) and hasattr(obj, "meta"):
        h.update(type(obj).__name__.encode())
        h.update(repr(tuple(data.columns)).encode())
        h.update(repr(tuple(str(t) for t in data.dtypes)).encode())
        h.update(repr(type(data.index).__name__).encode())
        try:
            h.update(pd.util.hash_pandas_object(data, index=True).values.tobytes())
        except Exception:  # noqa: BLE001
            return None
        meta = obj.meta if isinstance(obj.meta, dict) else {}
        h.update(repr(sorted((str(k), repr(v)) for k, v in meta.items() if k not in META_EXEMPT)).encode())
        return h.hexdigest()
    if isinstance(obj, (list, tuple, dict, str, int, float)) or obj is None:
        try:
            h.update(repr(obj).encode())
        except Exception:  # noqa: BLE001
            return None
        return (type(obj).__name__, h.hexdigest())
    return None
