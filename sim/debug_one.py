"""Developer aid: run one seed (or tape file) in-process and print the result.
usage: python -m sim.debug_one C09 quick <seed|replay.json> [opts-json]"""
import importlib, json, os, sys, time


def main():
    prop, tier, what = sys.argv[1], sys.argv[2], sys.argv[3]
    opts = json.loads(sys.argv[4]) if len(sys.argv) > 4 else {}
    from . import seams
    from .tape import Tape
    seams.bootstrap(os.environ.get("VERIF_REPO", "/repo"))
    check = importlib.import_module("checks." + prop.lower())
    if hasattr(check, "warm"):
        check.warm()
    if what.endswith(".json"):
        doc = json.load(open(what))
        tape = Tape(values=doc["tape"])
        opts = doc.get("opts") or opts
    else:
        tape = Tape(seed=int(what))
    import random
    import numpy as np
    np.random.seed(0); random.seed(0)
    t = time.time()
    res = check.run_one(tape, tier, opts)
    res["wall"] = round(time.time() - t, 3)
    res["tape_len"] = tape.pos
    print(json.dumps(res, indent=1, default=str))


if __name__ == "__main__":
    main()
