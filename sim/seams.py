"""Install the simulator behind the seams cnvkit already has.

No edit to /repo is needed: every seam is a Python module global.

* concurrent.futures.ProcessPoolExecutor / as_completed / wait -> SimPool
  (patched *before* the SUT is imported, see `bootstrap()`),
* the `time` global of every loaded cnvlib.* / skgenome.* module -> TimeProxy,
* the `os` / `tempfile` / `open` globals of the modules that touch files
  -> recording, fault-injecting proxies (simfs.py), installed per check.
"""
import os
import sys
import time as _real_time
import types

from . import ctx as _ctx
from . import simpool

SUT_PREFIXES = ("cnvlib", "skgenome")


class TimeProxy(types.ModuleType):
    """Stands in for the `time` module inside SUT modules."""

    def __init__(self):
        super().__init__("time")
        self.__dict__["_real"] = _real_time

    def time(self):
        return _ctx.current().clock.read()

    def monotonic(self):
        c = _ctx.current().clock
        c.read()
        return c.now

    perf_counter = monotonic

    def time_ns(self):
        return int(self.time() * 1e9)

    def sleep(self, s):
        _ctx.current().clock.advance(float(s))

    def __getattr__(self, name):
        return getattr(_real_time, name)


TIME_PROXY = TimeProxy()


def sut_modules():
    out = []
    for name in sorted(sys.modules):
        if name.split(".")[0] in SUT_PREFIXES:
            mod = sys.modules[name]
            if mod is not None:
                out.append((name, mod))
    return out


def install_time():
    n = 0
    for _name, mod in sut_modules():
        if getattr(mod, "time", None) is _real_time:
            mod.time = TIME_PROXY
            n += 1
    return n


def repoint_futures():
    """Belt and braces: any SUT global bound to the real executor class."""
    n = 0
    for _name, mod in sut_modules():
        for attr, val in list(vars(mod).items()):
            if val is simpool.REAL_PPE:
                setattr(mod, attr, simpool.SimPool)
                n += 1
            elif val is simpool.REAL_AS_COMPLETED:
                setattr(mod, attr, simpool.sim_as_completed)
                n += 1
            elif val is simpool.REAL_WAIT:
                setattr(mod, attr, simpool.sim_wait)
                n += 1
    return n


def bootstrap(repo="/repo"):
    """Patch concurrent.futures, then import the SUT from the working tree."""
    simpool.install()
    if repo not in sys.path:
        sys.path.insert(0, repo)
    import logging
    import warnings

    logging.disable(logging.CRITICAL)
    warnings.filterwarnings("ignore")
    # Third-party imports may use their bytecode caches; the SUT is always
    # compiled from the current source text of the working tree (a stale .pyc
    # can survive an edit that keeps size and mtime second).
    import matplotlib  # noqa: F401

    matplotlib.use("Agg")
    import matplotlib.pyplot  # noqa: F401
    import matplotlib.backends.backend_pdf  # noqa: F401
    import numpy, pandas, scipy.stats, scipy.signal, scipy.special  # noqa: F401,E401
    import pysam, pomegranate  # noqa: F401,E401
    try:
        import Bio.Graphics.BasicChromosome  # noqa: F401
        import reportlab.platypus  # noqa: F401
        import sklearn  # noqa: F401
    except Exception:
        pass
    sys.dont_write_bytecode = True
    saved_tag = sys.implementation.cache_tag
    sys.implementation.cache_tag = None
    try:
        _import_sut()
    finally:
        sys.implementation.cache_tag = saved_tag
    import cnvlib


    here = os.path.realpath(os.path.dirname(cnvlib.__file__))
    want = os.path.realpath(os.path.join(repo, "cnvlib"))
    if here != want:
        raise RuntimeError(f"cnvlib imported from {here}, expected {want}")
    install_time()
    repoint_futures()


def _import_sut():
    import cnvlib  # noqa: F401
    import skgenome  # noqa: F401
    from cnvlib import commands  # noqa: F401  (pulls in every sub-module)
    import cnvlib.segmentation  # noqa: F401
    import cnvlib.coverage  # noqa: F401
