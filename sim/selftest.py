"""./check selftest [determinism|simpool|sensitivity|all] [--n N] [--only ID,...]

determinism  every sampled seed of every check is executed in several fresh
             interpreters (two farm sizes, two hash seeds); schedule digests
             must be identical everywhere and result digests identical under
             the same hash seed.
simpool      SimPool against the real ProcessPoolExecutor on a behavioural
             script (eager map submission, ordered results, exception
             propagation, pickling isolation, BrokenProcessPool, cancel).
sensitivity  built-in mutants (selftest/mutants.py) applied to a scratch copy
             of the SUT under /dev/shm; the owning check must report a
             violation of the expected clause within its quick budget.
Exit 0 iff everything passed.
"""
import argparse
import json
import os
import shutil
import subprocess
import sys
import time

from . import runner
from .tape import derive_seed

VERIF = runner.VERIF


def _digests(prop, seeds, jobs, hashseed, scratch, tag):
    farm = runner.Farm(prop, "quick", jobs, scratch, hashseed=hashseed, tag=tag)
    try:
        out = farm.map([{"job": i, "seed": s} for i, s in enumerate(seeds)])
    finally:
        farm.close()
    res = {}
    for i, s in enumerate(seeds):
        r = out.get(i) or {}
        res[s] = (r.get("status"), r.get("schedule_digest"), r.get("result_digest"), r.get("message"))
    return res


def determinism(n, props):
    ok = True
    scratch = runner.make_scratch()
    try:
        for prop in props:
            seeds = [derive_seed(99, prop + "-selftest", i) for i in range(n)]
            t0 = time.monotonic()
            a = _digests(prop, seeds, 5, "0", scratch, "sa")
            b = _digests(prop, seeds, 16, "0", scratch, "sb")
            c = _digests(prop, seeds, 9, "31337", scratch, "sc")
            sched_bad = [s for s in seeds if not (a[s][1] == b[s][1] == c[s][1]) or a[s][1] is None]
            res_bad = [s for s in seeds if a[s][2] != b[s][2] or a[s][0] != b[s][0]]
            res_hash = [s for s in seeds if a[s][2] != c[s][2]]
            harness = [s for s in seeds if "harness_error" in (a[s][0], b[s][0], c[s][0])]
            print(f"determinism {prop}: {n} seeds x 3 executions (jobs 5/16/9, PYTHONHASHSEED 0/0/31337) "
                  f"in {time.monotonic() - t0:.0f}s: schedule mismatches {len(sched_bad)}, "
                  f"result mismatches same-hashseed {len(res_bad)}, other-hashseed {len(res_hash)}, "
                  f"harness errors {len(harness)}")
            if sched_bad or res_bad or harness:
                ok = False
                for s in (sched_bad + res_bad + harness)[:5]:
                    print("   seed", s, a[s], b[s], c[s])
            if res_hash:
                # SUT results depending on the hash seed are a C10 matter, not a harness fault
                print(f"   NOTE: results of {len(res_hash)} seeds differ under another PYTHONHASHSEED: "
                      f"{res_hash[:3]}")
    finally:
        shutil.rmtree(scratch, ignore_errors=True)
    return ok


# -- SimPool vs the real executor ----------------------------------------------

SIMPOOL_SCRIPT = r'''
import sys, os, json, pickle
sys.path.insert(0, %(verif)r)
MODE = sys.argv[1]
from concurrent import futures
if MODE == "sim":
    from sim import ctx as C, simpool
    from sim.tape import Tape
    simpool.install()
    C.install(C.SimContext(Tape(seed=int(sys.argv[2])), "selftest"))
import selftest.poolfuncs as F

out = {}
log = []
def gen():
    for i in range(5):
        log.append(("gen", i))
        yield i
with futures.ProcessPoolExecutor(3) as pool:
    it = pool.map(F.square, gen())
    log.append(("map-returned",))
    out["map"] = list(it)
out["eager"] = log.index(("map-returned",)) == 5
with futures.ProcessPoolExecutor(2) as pool:
    f = pool.submit(F.mutate_arg, [1, 2, 3])
    arg = [1, 2, 3]
    f2 = pool.submit(F.mutate_arg, arg)
    out["isolation"] = (f2.result(), arg)
    try:
        list(pool.map(F.fail_on_3, range(6)))
        out["exc"] = "no exception"
    except Exception as e:
        out["exc"] = type(e).__name__ + ":" + str(e)
    fs = [pool.submit(F.square, i) for i in range(4)]
    out["as_completed"] = sorted(f.result() for f in futures.as_completed(fs))
    done, notdone = futures.wait(fs)
    out["wait"] = (len(done), len(notdone))
# worker death inside a task: which other tasks finish first is schedule-dependent in
# the real executor too, so only schedule-independent facts are compared
pool = futures.ProcessPoolExecutor(2)
fs = {}
for i in range(5):
    try:
        fs[i] = pool.submit(F.die_on_2, i)
    except Exception as e:
        fs[i] = type(e).__name__
res = {}
for i, f in fs.items():
    if isinstance(f, str):
        res[i] = f
        continue
    try:
        res[i] = f.result()
    except Exception as e:
        res[i] = type(e).__name__
out["broken_each_value_or_broken"] = all(v == i or v == "BrokenProcessPool" for i, v in res.items())
out["broken_task2"] = res[2]
out["broken_after"] = [res[i] for i in (3, 4) if res[i] != i]  # anything not finished is broken
try:
    pool.submit(F.square, 1)
    out["broken_submit"] = "accepted"
except Exception as e:
    out["broken_submit"] = type(e).__name__
try:
    pool.shutdown(wait=True)
    out["broken_shutdown"] = "ok"
except Exception as e:
    out["broken_shutdown"] = type(e).__name__
with futures.ProcessPoolExecutor(2) as pool:
    try:
        pool.submit(lambda: 1).result()
        out["unpicklable"] = "ran"
    except Exception as e:
        out["unpicklable"] = "raised"
    out["state"] = sorted(set(pool.map(F.bump_global, range(6))))[:1]
with futures.ProcessPoolExecutor(3, initializer=F.set_shared, initargs=(40, 2)) as pool:
    out["initializer"] = sorted(set(pool.map(F.read_shared, range(7))))
out["initializer_parent_untouched"] = F._SHARED
pool = futures.ProcessPoolExecutor(2, initializer=F.bad_init)
try:
    out["bad_initializer"] = pool.submit(F.square, 3).result()
except Exception as e:
    out["bad_initializer"] = type(e).__name__
pool.shutdown()
pool = futures.ProcessPoolExecutor(1)
pool.shutdown()
try:
    pool.submit(F.square, 1)
    out["after_shutdown"] = "accepted"
except RuntimeError as e:
    out["after_shutdown"] = "RuntimeError"
print(json.dumps(out, sort_keys=True))
'''


def simpool_vs_real():
    env = runner.base_env("0")
    script = SIMPOOL_SCRIPT % {"verif": VERIF}
    real = subprocess.run([runner.PY, "-c", script, "real"], capture_output=True, text=True,
                          env=env, cwd=VERIF, timeout=300)
    if real.returncode != 0:
        print("simpool: real-executor script failed:\n", real.stderr[-2000:])
        return False
    want = json.loads(real.stdout.strip().splitlines()[-1])
    ok = True
    for seed in range(12):
        sim = subprocess.run([runner.PY, "-c", script, "sim", str(seed)], capture_output=True,
                             text=True, env=env, cwd=VERIF, timeout=300)
        if sim.returncode != 0:
            print(f"simpool: sim script failed (tape seed {seed}):\n", sim.stderr[-2000:])
            ok = False
            continue
        got = json.loads(sim.stdout.strip().splitlines()[-1])
        for d in (got, want):
            d["broken_after"] = sorted(set(d["broken_after"]))  # [] or ["BrokenProcessPool"]
            d["broken_after"] = [x for x in d["broken_after"] if x != "BrokenProcessPool"]
        if got != want:
            ok = False
            for k in sorted(set(got) | set(want)):
                if got.get(k) != want.get(k):
                    print(f"simpool: tape seed {seed}: {k}: sim {got.get(k)!r} != real {want.get(k)!r}")
    print(f"simpool: behaviour script agrees with the real ProcessPoolExecutor on 12 tapes: {ok}")
    print("   ", json.dumps(want, sort_keys=True))
    return ok


# -- sensitivity ---------------------------------------------------------------

def make_mutant_tree(mut, root):
    repo = os.environ.get("VERIF_REPO", "/repo")
    dst = os.path.join(root, mut["id"])
    os.makedirs(dst)
    for pkg in ("cnvlib", "skgenome"):
        shutil.copytree(os.path.join(repo, pkg), os.path.join(dst, pkg),
                        ignore=shutil.ignore_patterns("__pycache__"))
    for edit in mut["edits"]:
        p = os.path.join(dst, edit["file"])
        with open(p) as fh:
            s = fh.read()
        if s.count(edit["old"]) != 1:
            raise RuntimeError(f"mutant {mut['id']}: pattern occurs {s.count(edit['old'])} times in "
                               f"{edit['file']}")
        with open(p, "w") as fh:
            fh.write(s.replace(edit["old"], edit["new"]))
    return dst


def sensitivity(only=None, runs=None):
    sys.path.insert(0, VERIF)
    from selftest.mutants import MUTANTS

    root = os.path.join("/dev/shm" if os.path.isdir("/dev/shm") else "/tmp", f"verif-mut-{os.getpid()}")
    os.makedirs(root)
    results = []
    try:
        for mut in MUTANTS:
            if only and mut["id"] not in only:
                continue
            tree = make_mutant_tree(mut, root)
            imp = subprocess.run([runner.PY, "-c", "import cnvlib, cnvlib.segmentation, skgenome"],
                                 capture_output=True, text=True, cwd=tree,
                                 env=dict(os.environ, PYTHONPATH=tree))
            if imp.returncode != 0:
                print(f"sensitivity {mut['id']}: BROKEN MUTANT (does not import)\n{imp.stderr[-500:]}")
                results.append((mut["id"], mut["property"], "HARNESS", 0, []))
                continue
            env = dict(os.environ)
            env["VERIF_REPO"] = tree
            cmd = [os.path.join(VERIF, "check"), mut["property"], "--tier", "quick", "--no-evidence",
                   "--no-shrink"]
            if runs:
                cmd += ["--runs", str(runs)]
            t0 = time.monotonic()
            p = subprocess.run(cmd, capture_output=True, text=True, env=env, cwd=VERIF, timeout=1800)
            dt = time.monotonic() - t0
            lines = p.stdout.splitlines()
            clauses = [ln.strip() for ln in lines if ln.strip().startswith("clause=")]
            hit = p.returncode == 1 and any(
                any(("clause=" + c + " ") in ln + " " or ("/" + c + "/") in ln or ln.endswith("/" + c)
                    for c in mut["expect"]) for ln in clauses)
            status = "caught" if hit else ("caught-other-clause" if p.returncode == 1 else
                                           ("HARNESS" if p.returncode not in (0, 1) else "MISSED"))
            results.append((mut["id"], mut["property"], status, round(dt), clauses[:2]))
            print(f"sensitivity {mut['id']:28s} {mut['property']} expect {mut['expect']}: {status} "
                  f"({dt:.0f}s) {clauses[:2]}")
            if status in ("HARNESS", "MISSED"):
                for ln in [x for x in lines if "HARNESS" in x or "Traceback" in x or "Error" in x][:6]:
                    print("    " + ln[:300])
            sys.stdout.flush()
            shutil.rmtree(tree, ignore_errors=True)
    finally:
        shutil.rmtree(root, ignore_errors=True)
    missed = [r for r in results if r[2] in ("MISSED", "HARNESS")]
    print(f"sensitivity: {len(results) - len(missed)}/{len(results)} mutants caught")
    with open(os.path.join(VERIF, "selftest", "sensitivity_last.json"), "w") as fh:
        json.dump([{"id": r[0], "property": r[1], "status": r[2], "wall_s": r[3], "clauses": r[4]}
                   for r in results], fh, indent=1)
    return not missed


def main(argv=None):
    ap = argparse.ArgumentParser(prog="check selftest")
    ap.add_argument("what", nargs="?", default="default",
                    choices=["default", "determinism", "simpool", "sensitivity", "all"])
    ap.add_argument("--n", type=int, default=48)
    ap.add_argument("--props", default="C03,C09,C10")
    ap.add_argument("--only", default=None)
    ap.add_argument("--runs", type=int, default=None)
    args = ap.parse_args(argv)
    ok = True
    if args.what in ("default", "simpool", "all"):
        ok &= simpool_vs_real()
    if args.what in ("default", "determinism", "all"):
        ok &= determinism(args.n, args.props.split(","))
    if args.what in ("sensitivity", "all"):
        ok &= sensitivity(set(args.only.split(",")) if args.only else None, args.runs)
    print("SELFTEST", "PASSED" if ok else "FAILED")
    return 0 if ok else 3


if __name__ == "__main__":
    sys.exit(main())
