"""Warm worker process of the search: imports the SUT once, then executes each
simulated run in a *fresh fork* so that no process-global state of the SUT can
leak from one run into the next (every run starts from the state of a freshly
imported interpreter, which is also what a replay starts from).

Protocol (JSON lines): stdin  {"job": n, "seed": s} | {"job": n, "tape": [...]}
                       stdout {"job": n, ...result...}
Run as:  python -m sim.worker_main <PROP> <TIER>      (cwd = /verif)
"""
import faulthandler
import importlib
import json
import os
import pickle
import select
import signal
import struct
import sys
import time
import traceback

RUN_TIMEOUT_S = float(os.environ.get("VERIF_RUN_TIMEOUT_S", "180"))


def _child(check, job, tier, wfd):
    from . import ctx as _ctx
    from .tape import Tape

    faulthandler.dump_traceback_later(RUN_TIMEOUT_S - 5, exit=False)
    tape = Tape(values=job["tape"]) if "tape" in job else Tape(seed=int(job["seed"]))
    opts = job.get("opts") or {}
    try:
        import random

        import numpy as np

        # every run starts from the same, known state of the global RNGs
        np.random.seed(0)
        random.seed(0)
        res = check.run_one(tape, tier, opts)
    except BaseException as exc:  # harness failure, not a verdict
        res = {
            "status": "harness_error",
            "message": f"{type(exc).__name__}: {exc}",
            "traceback": traceback.format_exc(),
        }
    finally:
        if _ctx.CUR is not None:
            _ctx.CUR.close()
    res.setdefault("seed", job.get("seed"))
    res["tape_len"] = tape.pos
    if res.get("status") != "ok" or job.get("want_tape"):
        res["tape"] = tape.consumed()
        res["tape_labels"] = [lab for lab, _n in tape.labels]
    data = pickle.dumps(res)
    os.write(wfd, struct.pack("<Q", len(data)))
    view = memoryview(data)
    while view:
        n = os.write(wfd, view)
        view = view[n:]


def _read_all(fd, pid, timeout):
    deadline = time.monotonic() + timeout
    buf = b""
    need = None
    while True:
        left = deadline - time.monotonic()
        if left <= 0:
            return None, "timeout"
        r, _, _ = select.select([fd], [], [], min(left, 5.0))
        if not r:
            continue
        b = os.read(fd, 1 << 20)
        if not b:
            return None, "eof"
        buf += b
        if need is None and len(buf) >= 8:
            (need,) = struct.unpack("<Q", buf[:8])
        if need is not None and len(buf) >= 8 + need:
            return pickle.loads(buf[8 : 8 + need]), None


def run_job(check, job, tier):
    r, w = os.pipe()
    sys.stdout.flush()
    sys.stderr.flush()
    pid = os.fork()
    if pid == 0:
        code = 0
        try:
            os.close(r)
            os.setpgid(0, 0)
            from .simpool import _set_pdeathsig
            _set_pdeathsig()
            _child(check, job, tier, w)
        except BaseException:
            traceback.print_exc()
            code = 1
        finally:
            os._exit(code)
    os.close(w)
    t0 = time.monotonic()
    res, err = _read_all(r, pid, RUN_TIMEOUT_S)
    os.close(r)
    if err is not None:
        try:
            os.killpg(pid, signal.SIGKILL)
        except OSError:
            try:
                os.kill(pid, signal.SIGKILL)
            except OSError:
                pass
    try:
        _pid, st = os.waitpid(pid, 0)
    except ChildProcessError:
        st = 0
    # the run's own pool workers die with it (PDEATHSIG); reap the group anyway
    try:
        os.killpg(pid, signal.SIGKILL)
    except OSError:
        pass
    if res is None:
        res = {
            "status": "harness_error",
            "message": f"run child {err} (wait status {st})",
            "seed": job.get("seed"),
        }
        if "tape" in job:
            res["tape"] = job["tape"]
    res["job"] = job["job"]
    res["wall_s"] = round(time.monotonic() - t0, 4)
    return res


def main():
    prop, tier = sys.argv[1], sys.argv[2]
    from . import seams

    seams.bootstrap(os.environ.get("VERIF_REPO", "/repo"))
    check = importlib.import_module("checks." + prop.lower())
    if hasattr(check, "warm"):
        check.warm()
    out = sys.stdout
    out.write(json.dumps({"ready": True, "pid": os.getpid(),
                          "hashseed": os.environ.get("PYTHONHASHSEED")}) + "\n")
    out.flush()
    for line in sys.stdin:
        line = line.strip()
        if not line:
            continue
        job = json.loads(line)
        if job.get("exit"):
            break
        res = run_job(check, job, tier)
        out.write(json.dumps(res, default=str) + "\n")
        out.flush()


if __name__ == "__main__":
    main()
