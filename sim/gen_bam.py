"""Synthetic coordinate-sorted BAM + BED workloads and the read-level depth model.

Everything is derived from the tape (bulk positions from a numpy Generator
seeded by one tape draw).  The reference model of C09 is computed from the
generated read list and never looks at cnvkit or samtools.
"""
import math
import os

import numpy as np

FLAG_PAIRED = 0x1
FLAG_UNMAP = 0x4
FLAG_REVERSE = 0x10
FLAG_SECONDARY = 0x100
FLAG_QCFAIL = 0x200
FLAG_DUP = 0x400
FLAG_SUPPLEMENTARY = 0x800

EXCLUDING = (FLAG_UNMAP, FLAG_SECONDARY, FLAG_QCFAIL, FLAG_DUP)
NULL_LOG2 = -20.0


class Read:
    __slots__ = ("tid", "pos", "qlen", "left_clip", "right_clip", "flag", "mapq", "name", "ins")

    def __init__(self, tid, pos, qlen, left_clip, right_clip, flag, mapq, name, ins=None):
        self.tid, self.pos, self.qlen = tid, pos, qlen
        self.left_clip, self.right_clip = left_clip, right_clip
        self.flag, self.mapq, self.name = flag, mapq, name
        # (offset into the aligned part, inserted length): an insertion consumes query bases
        # only, so the read still covers `aligned` contiguous reference bases - in two blocks
        self.ins = ins

    @property
    def aligned(self):
        """Reference bases covered (soft clips and inserted bases excluded)."""
        return self.qlen - self.left_clip - self.right_clip - (self.ins[1] if self.ins else 0)

    def counted(self, min_mapq):
        if self.flag & (FLAG_UNMAP | FLAG_SECONDARY | FLAG_QCFAIL | FLAG_DUP):
            return False
        return self.mapq >= min_mapq


def gen_workload(tape, tier):
    """Return dict(contigs, reads, bed_lines, bed_rows, ncols, min_mapq, ...)."""
    big = tier == "thorough"
    n_contigs = tape.weighted([(1, 3), (2, 2), (3, 2)], "bam.ncontigs")
    # "mixed": prefixed and bare names side by side, also for the same chromosome ("1" and
    # "chr1" sort alike), and a zero-padded one
    naming = tape.weighted([("chr", 3), ("plain", 3), ("mixed", 1)], "bam.naming")
    names_pool = ["1", "2", "X", "Y", "M", "10", "GL000207.1"]
    if naming == "mixed":
        names_pool = ["1", "chr1", "01", "X", "chrX", "2", "chr2"]
    idxs = tape.shuffle(range(len(names_pool)), "bam.names")[:n_contigs]
    contigs = []
    for i in idxs:
        nm = names_pool[i]
        if naming == "chr" and not nm.startswith("GL"):
            nm = "chr" + nm
        length = tape.between(500, 6000, "bam.clen")
        contigs.append((nm, length))
    min_mapq = tape.choice([0, 1, 10, 30, 60], "cov.min_mapq")
    max_reads = tape.weighted(
        [(40, 3), (200, 3), (600, 2)] + ([(5000, 2)] if big else []), "bam.maxreads")
    n_reads = tape.between(0, max_reads, "bam.nreads")
    if tape.chance(1, 12, "bam.empty"):
        n_reads = 0
    rng = np.random.default_rng(tape.subseed("bam.bulk"))

    # --- BED first, so that reads can be aimed at bin edges -----------------
    ncols = tape.choice([4, 3, 6, 8, 12], "bed.ncols")  # 5 columns with name "-" is sniffed as a Picard interval list (C08 ground, not claimed here)
    n_bins = tape.weighted([(3, 2), (12, 4), (40, 3), (100, 1)], "bed.maxbins")
    n_bins = tape.between(1, n_bins, "bed.nbins")
    style = tape.choice(["tiled", "random", "mixed", "grid"], "bed.style")
    sorted_bed = not tape.chance(1, 4, "bed.unsorted")
    rows = []  # (contig_index, start, end, name)
    edges = []
    if style == "grid":
        # the same fixed-width windows from 0 on every contig (how whole-genome bins look):
        # bins on different contigs share their (start, end)
        width = int(rng.integers(40, 700))
        per = max(1, -(-n_bins // n_contigs))
        b = 0
        for ci in range(n_contigs):
            for j in range(per):
                s = j * width
                if j and s >= contigs[ci][1]:
                    break
                rows.append((ci, s, s + width, _bin_name(rng, b)))
                edges += [(ci, s), (ci, s + width)]
                b += 1
        n_bins = 0
    for b in range(n_bins):
        ci = int(rng.integers(0, n_contigs))
        clen = contigs[ci][1]
        kind = style if style != "mixed" else ("tiled" if rng.random() < 0.5 else "random")
        special = rng.random()
        if special < 0.04:
            s = int(rng.integers(0, clen))
            e = s  # zero-width
        elif special < 0.02 + 0.04:
            s = int(rng.integers(max(0, clen - 300), clen))
            e = clen + int(rng.integers(1, 400))  # past the contig end
        elif special < 0.10:
            # a bin of millions of bases (far past the contig end): depths below 2**-20
            s = int(rng.integers(0, clen))
            e = s + int(rng.integers(1 << 20, 1 << 26))
        elif special < 0.13:
            s = 0
            e = int(rng.integers(1, min(clen, 400) + 1))  # at the contig start
        elif special < 0.16:
            e = clen
            s = int(rng.integers(max(0, clen - 400), clen))  # ends at contig end
        elif kind == "tiled" and rows and rows[-1][0] == ci and rows[-1][2] < clen - 1:
            s = rows[-1][2]  # abutting the previous bin
            e = min(clen, s + int(rng.integers(1, 400)))
        else:
            s = int(rng.integers(0, clen - 1))
            e = min(clen + 50, s + int(rng.integers(1, 500)))
        name = _bin_name(rng, b)
        rows.append((ci, s, e, name))
        edges.append((ci, s))
        edges.append((ci, e))
    if sorted_bed:
        rows.sort(key=lambda r: (r[0], r[1], r[2]))
    if tape.chance(1, 6, "bed.dupline") and rows:
        rows.insert(int(rng.integers(0, len(rows) + 1)), rows[int(rng.integers(0, len(rows)))])
        if sorted_bed:
            rows.sort(key=lambda r: (r[0], r[1], r[2]))

    # --- reads ---------------------------------------------------------------
    reads = []
    cutoffs = sorted({0, max(0, min_mapq - 1), min_mapq, min(60, min_mapq + 1), 60})
    for k in range(n_reads):
        ci = int(rng.integers(0, n_contigs))
        clen = contigs[ci][1]
        qlen = int(rng.integers(30, 151))
        lc = rc = 0
        if rng.random() < 0.25:
            lc = int(rng.integers(1, 20))
        if rng.random() < 0.25:
            rc = int(rng.integers(1, 20))
        if lc + rc >= qlen:
            lc, rc = 0, 0
        aligned = qlen - lc - rc
        if aligned > clen:
            aligned = clen
            qlen = aligned + lc + rc
        ins = None
        if aligned >= 12 and rng.random() < 0.12:
            k_ins = int(rng.integers(1, 6))
            ins = (int(rng.integers(3, aligned - 3)), k_ins)  # aligned part stays `aligned` long
            qlen += k_ins
        where = rng.random()
        if where < 0.35 and edges:
            # straddle (or just touch / just miss) a bin edge
            eci, epos = edges[int(rng.integers(0, len(edges)))]
            ci, clen = eci, contigs[eci][1]
            if aligned > clen:
                aligned = clen
                qlen = aligned + lc + rc
                ins = None
            off = int(rng.integers(-aligned - 1, 2))
            pos = epos + off
        elif where < 0.42:
            pos = clen - aligned  # ends exactly at the contig end
        elif where < 0.47:
            pos = 0
        else:
            pos = int(rng.integers(0, max(1, clen - aligned + 1)))
        pos = max(0, min(pos, clen - aligned))
        flag = 0
        fr = rng.random()
        if fr < 0.30:
            # one or several excluding / non-excluding flags, all combinations reachable
            for bit in (FLAG_DUP, FLAG_SECONDARY, FLAG_QCFAIL, FLAG_UNMAP,
                        FLAG_SUPPLEMENTARY):
                if rng.random() < 0.3:
                    flag |= bit
        if rng.random() < 0.5:
            flag |= FLAG_REVERSE
        if rng.random() < 0.4:
            # paired-end bits: none of them excludes a read
            flag |= FLAG_PAIRED | (0x40 if rng.random() < 0.5 else 0x80)
            for bit in (0x2, 0x8, 0x20):
                if rng.random() < 0.4:
                    flag |= bit
        mq = rng.random()
        if mq < 0.5:
            mapq = int(cutoffs[int(rng.integers(0, len(cutoffs)))])
        else:
            mapq = int(rng.integers(0, 61))
        reads.append(Read(ci, pos, qlen, lc, rc, flag, mapq, f"r{k}", ins))
    # reads that cover one bin exactly, base for base (mean depth exactly 1 where nothing else lands)
    if rows and tape.chance(1, 3, "bam.exact_cover"):
        cand = [r_ for r_ in rows if 30 <= r_[2] - r_[1] <= 150 and r_[2] <= contigs[r_[0]][1]]
        for j, (ci, s_, e_, _nm) in enumerate(cand[:3]):
            reads.append(Read(ci, s_, e_ - s_, 0, 0, 0, 60, f"x{j}"))
    reads.sort(key=lambda r: (r.tid, r.pos))
    # unplaced unmapped reads (no contig, no position): stored after all placed reads in a
    # coordinate-sorted BAM
    n_unplaced = tape.weighted([(0, 3), (1, 1), (4, 1)], "bam.unplaced")
    for k in range(n_unplaced):
        reads.append(Read(-1, -1, int(rng.integers(30, 151)), 0, 0,
                          FLAG_UNMAP | (FLAG_PAIRED if rng.random() < 0.5 else 0), 0, f"u{k}"))

    # --- BED text ---------------------------------------------------------------
    header = tape.chance(1, 6, "bed.track")
    comments = tape.chance(1, 6, "bed.comments")
    lines = []
    # UCSC "browser" lines, with or without a track line after them
    n_browser = tape.weighted([(0, 5), (1, 2)], "bed.browser")  # a second browser line is rejected by the --count reader (pinned tree): not quantified over
    for k in range(n_browser):
        lines.append(f"browser position {contigs[0][0]}:1-{100 + k}\n" if k == 0 else "browser hide all\n")
    if header:
        lines.append('track name="verif" description="synthetic"\n')
    for (ci, s, e, name) in rows:
        chrom = contigs[ci][0]
        if ncols == 3:
            lines.append(f"{chrom}\t{s}\t{e}\n")
        elif ncols == 4:
            lines.append(f"{chrom}\t{s}\t{e}\t{name}\n")
        else:
            strand = "+" if (s + e) % 2 else "-"
            fields = [chrom, str(s), str(e), name, str((s * 7 + e) % 1000), strand, str(s), str(e),
                      "255,0,0", "1", f"{max(e - s, 0)},", "0,"]
            lines.append("\t".join(fields[:ncols]) + "\n")
    return {
        "contigs": contigs,
        "reads": reads,
        "rows": rows,
        "ncols": ncols,
        "bed_lines": lines,
        "track_header": header or bool(n_browser),
        "n_browser": n_browser,
        "n_header_lines": n_browser + (1 if header else 0),
        "comments": comments,
        "min_mapq": min_mapq,
        "sorted_bed": sorted_bed,
        "comment_rng": int(rng.integers(0, 1 << 30)),
    }


def _bin_name(rng, b):
    r = rng.random()
    if r < 0.06:
        # legal but unusual characters inside a name
        return ["exon#%d" % b, "G;x|y:z", "a b", "#lead%d" % b, "x%%y", "q\"uote", "R=1&2",
                # names that look like something else to a table parser
                "NA", "None", "null", "nan", "007", "1e5", "TRUE", "12"][int(rng.integers(0, 15))]
    if r < 0.5:
        return f"G{int(rng.integers(0, 8))}"
    if r < 0.65:
        return f"G{b},H{b}"
    if r < 0.75:
        return "Antitarget"
    if r < 0.85:
        return "-"
    return f"bin_{b}"


def bed_text(wl, with_comments):
    lines = list(wl["bed_lines"])
    if with_comments:
        rng = np.random.default_rng(wl["comment_rng"])
        out = []
        for ln in lines:
            if rng.random() < 0.3:
                out.append("# a comment line\n")
            out.append(ln)
        lines = out
    return "".join(lines)


def n_data_lines(wl):
    return len(wl["rows"])


def write_bam(wl, path, index=True):
    import pysam

    header = {
        "HD": {"VN": "1.6", "SO": "coordinate"},
        "SQ": [{"SN": n, "LN": ln} for n, ln in wl["contigs"]],
    }
    with pysam.AlignmentFile(path, "wb", header=header) as out:
        for r in wl["reads"]:
            a = pysam.AlignedSegment(out.header)
            a.query_name = r.name
            a.query_sequence = "A" * r.qlen
            a.flag = r.flag
            a.reference_id = r.tid
            a.reference_start = r.pos  # (-1, -1) for an unplaced read
            a.mapping_quality = r.mapq
            if r.flag & FLAG_UNMAP:
                a.cigartuples = None
            else:
                cig = []
                if r.left_clip:
                    cig.append((4, r.left_clip))
                if r.ins:
                    cig += [(0, r.ins[0]), (1, r.ins[1]), (0, r.aligned - r.ins[0])]
                else:
                    cig.append((0, r.aligned))
                if r.right_clip:
                    cig.append((4, r.right_clip))
                a.cigartuples = cig
            a.next_reference_id = -1
            a.next_reference_start = -1
            a.template_length = 0
            a.query_qualities = pysam.qualitystring_to_array("I" * r.qlen)
            out.write(a)
    if index:
        pysam.index(path)


def model_table(wl, min_mapq):
    """Expected multiset of rows: (chrom, start, end, gene, depth, log2)."""
    by_contig = {}
    for r in wl["reads"]:
        if r.counted(min_mapq):
            by_contig.setdefault(r.tid, []).append((r.pos, r.pos + r.aligned))
    arrs = {}
    for tid, ivs in by_contig.items():
        a = np.array(ivs, dtype=np.int64)
        arrs[tid] = (a[:, 0], a[:, 1])
    out = []
    for (ci, s, e, name) in wl["rows"]:
        bases = 0
        if e > s and ci in arrs:
            st, en = arrs[ci]
            ov = np.minimum(en, e) - np.maximum(st, s)
            bases = int(ov[ov > 0].sum())
        depth = bases / (e - s) if e > s else 0.0
        log2 = math.log2(depth) if depth > 0 else NULL_LOG2
        gene = name if wl["ncols"] >= 4 else "-"
        out.append((wl["contigs"][ci][0], s, e, gene, depth, log2))
    return out


def workload_probes(wl, min_mapq):
    """Reach probes over the generated data (which hard cases are present)."""
    p = {}
    rows = wl["rows"]
    reads = wl["reads"]
    if any(e == s for _c, s, e, _n in rows):
        p["bin.zero_width"] = 1
    if any(e > wl["contigs"][c][1] for c, s, e, _n in rows):
        p["bin.past_contig_end"] = 1
    seen = set()
    overlap = False
    last = {}
    for c, s, e, _n in sorted(rows):
        if c in last and s < last[c]:
            overlap = True
        last[c] = max(last.get(c, 0), e)
        if (c, s, e) in seen:
            p["bin.duplicate_line"] = 1
        seen.add((c, s, e))
    if overlap:
        p["bin.overlapping"] = 1
    if any(r.mapq == min_mapq for r in reads) and min_mapq > 0:
        p["read.mapq_eq_cutoff"] = 1
    if any(r.mapq == min_mapq - 1 for r in reads) and min_mapq > 0:
        p["read.mapq_just_below"] = 1
    for bit, nm in ((FLAG_DUP, "dup"), (FLAG_SECONDARY, "secondary"), (FLAG_QCFAIL, "qcfail"),
                    (FLAG_UNMAP, "unmapped"), (FLAG_SUPPLEMENTARY, "supplementary")):
        for r in reads:
            if r.flag & bit and any(c == r.tid and r.pos < e and r.pos + r.aligned > s
                                    for c, s, e, _n in rows):
                p["read.flag_" + nm + "_over_bin"] = 1
                break
    if any(r.left_clip or r.right_clip for r in reads):
        p["read.softclip"] = 1
    for r in reads:
        if r.tid >= 0 and r.pos + r.aligned == wl["contigs"][r.tid][1]:
            p["read.at_contig_end"] = 1
            break
    strad = 0
    for r in reads[:400]:
        for c, s, e, _n in rows:
            if c == r.tid and ((r.pos < s < r.pos + r.aligned) or (r.pos < e < r.pos + r.aligned)):
                strad = 1
                break
        if strad:
            break
    if strad:
        p["read.straddles_bin_edge"] = 1
    if not reads:
        p["bam.no_reads"] = 1
    return p
