"""SimPool: a deterministic discrete-event stand-in for ProcessPoolExecutor.

* Workers are *real forked children* (all `max_workers` of them are forked at
  the first submit, as CPython 3.12 does for the fork start method), so
  pickling isolation, inherited process-global state and per-worker state
  carry-over are the real thing.
* Exactly one process runs at any time: a child executes a task only when the
  scheduler hands it the baton over a pipe, and the parent blocks until the
  reply arrives.  Which idle worker takes the next queued task, how long each
  task "takes" (simulated time), how far the workers get ahead of the parent at
  every pool API call, and which faults fire are all drawn from the tape.
* map() submits eagerly and yields in submission order; as_completed()/wait()
  observe the simulated completion order; shutdown(wait=True) drains.
"""
import ctypes
import heapq
import os
import pickle
import select
import signal
import struct
import sys
import traceback
from collections import deque
from concurrent import futures as _cf
from concurrent.futures import process as _cfp

from . import ctx as _ctx
from .tape import Tape

REAL_PPE = _cf.ProcessPoolExecutor
REAL_AS_COMPLETED = _cf.as_completed
REAL_WAIT = _cf.wait
BrokenProcessPool = _cfp.BrokenProcessPool

CHILD_REPLY_TIMEOUT_S = float(os.environ.get("VERIF_TASK_TIMEOUT_S", "150"))
IN_WORKER = False  # True inside a forked SimPool worker


class HarnessError(RuntimeError):
    """The simulator itself failed (never a property violation)."""


class InjectedTaskError(RuntimeError):
    """Default class of an injected in-task exception."""


def _send(fd, obj):
    data = pickle.dumps(obj, protocol=pickle.HIGHEST_PROTOCOL)
    data = struct.pack("<Q", len(data)) + data
    view = memoryview(data)
    while view:
        n = os.write(fd, view)
        view = view[n:]


def _recv_exact(fd, n, timeout=None):
    chunks = []
    got = 0
    while got < n:
        if timeout is not None:
            r, _, _ = select.select([fd], [], [], timeout)
            if not r:
                raise HarnessError("timeout waiting for simulated worker")
        b = os.read(fd, min(1 << 20, n - got))
        if not b:
            raise EOFError
        chunks.append(b)
        got += len(b)
    return b"".join(chunks)


def _recv(fd, timeout=None):
    (n,) = struct.unpack("<Q", _recv_exact(fd, 8, timeout))
    return pickle.loads(_recv_exact(fd, n, timeout))


def _set_pdeathsig():
    try:
        ctypes.CDLL(None).prctl(1, signal.SIGKILL)
    except Exception:
        pass


class _Worker:
    def __init__(self, pool, idx, close_fds):
        self.idx = idx
        self.busy = None  # task currently "running" in simulated time
        self.ntasks = 0
        self.alive = True
        p2c_r, p2c_w = os.pipe()
        c2p_r, c2p_w = os.pipe()
        sys.stdout.flush()
        sys.stderr.flush()
        pid = os.fork()
        if pid == 0:
            try:
                _set_pdeathsig()
                os.close(p2c_w)
                os.close(c2p_r)
                for fd in close_fds:
                    try:
                        os.close(fd)
                    except OSError:
                        pass
                _worker_main(p2c_r, c2p_w, idx, pool._initializer, pool._initargs)
            except BaseException:
                traceback.print_exc()
            finally:
                os._exit(0)
        os.close(p2c_r)
        os.close(c2p_w)
        self.pid = pid
        self.wfd = p2c_w
        self.rfd = c2p_r

    def fds(self):
        return [self.wfd, self.rfd]

    def call(self, msg):
        _send(self.wfd, msg)
        return _recv(self.rfd, CHILD_REPLY_TIMEOUT_S)

    def stop(self, kill=False):
        if not self.alive:
            return
        self.alive = False
        try:
            if kill:
                os.kill(self.pid, signal.SIGKILL)
            else:
                _send(self.wfd, ("exit",))
        except OSError:
            pass
        for fd in (self.wfd, self.rfd):
            try:
                os.close(fd)
            except OSError:
                pass
        try:
            os.waitpid(self.pid, 0)
        except ChildProcessError:
            pass


def _worker_main(rfd, wfd, idx, initializer=None, initargs=()):
    """Loop of a simulated worker process: run one task per baton."""
    global IN_WORKER
    IN_WORKER = True
    parent_ctx = _ctx.CUR
    # Inside a worker any nested pool is driven by an all-zero tape.
    child_ctx = _ctx.SimContext(Tape(values=[]), prop="worker")
    child_ctx.worker_init = []
    _ctx.install(child_ctx)
    inits = list(parent_ctx.worker_init) if parent_ctx is not None else []
    first = True
    while True:
        try:
            msg = _recv(rfd)
        except EOFError:
            return
        kind = msg[0]
        if kind == "exit":
            return
        if kind != "task":
            continue
        _k, payload, fault, scramble = msg
        if first:
            first = False
            for fn in inits:
                fn(idx, scramble)
            if initializer is not None:
                # ProcessPoolExecutor(initializer=..., initargs=...): runs once in every worker
                # (inherited through fork, not pickled); a failing initializer kills the worker,
                # which breaks the pool
                try:
                    initializer(*initargs)
                except BaseException:  # noqa: B902
                    traceback.print_exc()
                    os._exit(18)
        if fault and fault[0] == "death" and fault[1] == "before":
            os._exit(17)
        child_ctx.armed_inner = fault[1] if fault and fault[0] == "inner" else None
        try:
            if fault and fault[0] == "exc" and fault[1] == "before":
                raise _make_injected(fault[2])
            fn, args, kwargs = pickle.loads(payload)
            res = fn(*args, **kwargs)
            if fault and fault[0] == "exc" and fault[1] == "after":
                raise _make_injected(fault[2])
            reply = ["ok", pickle.dumps(res, protocol=pickle.HIGHEST_PROTOCOL), None]
        except BaseException as exc:  # noqa: B902 - mirror the real executor
            tb = "".join(traceback.format_exception(type(exc), exc, exc.__traceback__))
            try:
                reply = ["exc", pickle.dumps(exc), tb]
            except Exception:
                reply = ["exc", pickle.dumps(RuntimeError(repr(exc))), tb]
        # an armed in-task fault that no seam consumed did not fire
        consumed = bool(fault and fault[0] == "inner" and child_ctx.armed_inner is None)
        child_ctx.armed_inner = None
        reply.append({"inner_consumed": consumed})
        if fault and fault[0] == "death" and fault[1] == "after":
            os._exit(17)
        _send(wfd, tuple(reply))


def maybe_inner_fault(site):
    """Seam hook: raise the armed in-task fault (once) at an I/O-ish call site
    *inside* the SUT's task function, so that handlers in the SUT see it."""
    cur = _ctx.CUR
    name = getattr(cur, "armed_inner", None) if cur is not None else None
    if not name:
        return
    cur.armed_inner = None
    raise _make_injected(name, site)


def _make_injected(name, site=""):
    import errno

    if name == "samtools":
        import pysam
        return pysam.SamtoolsError(f"injected samtools failure at {site}")
    if name == "oserror":
        return OSError(errno.EIO, "Input/output error (injected)")
    if name == "memory":
        return MemoryError("injected")
    return InjectedTaskError("injected task failure")


class SimFuture(_cf.Future):
    def __init__(self, pool, tid):
        super().__init__()
        self._sim_pool = pool
        self._sim_tid = tid

    def _sim_drive(self):
        if not super().done():
            self._sim_pool._drive_until(self)
        self._sim_pool._interleave("result")

    def result(self, timeout=None):
        self._sim_drive()
        return super().result(0)

    def exception(self, timeout=None):
        self._sim_drive()
        return super().exception(0)

    def done(self):
        if not super().done():
            self._sim_pool._interleave("done")
        return super().done()

    def cancel(self):
        if super().done():
            return super().cancel()
        return self._sim_pool._cancel(self)


class _Task:
    __slots__ = ("tid", "payload", "future", "duration", "fault", "worker", "state",
                 "reply")

    def __init__(self, tid, payload, future):
        self.tid = tid
        self.payload = payload
        self.future = future
        self.duration = 0.0
        self.fault = None
        self.worker = None
        self.state = "queued"  # queued | running | done | cancelled
        self.reply = None


class SimPool:
    """Drop-in for concurrent.futures.ProcessPoolExecutor under simulation."""

    def __init__(self, max_workers=None, mp_context=None, initializer=None,
                 initargs=(), *, max_tasks_per_child=None):
        self.ctx = _ctx.current()
        if max_workers is None:
            max_workers = self.ctx.ncpu
        if max_workers <= 0:
            raise ValueError("max_workers must be greater than 0")
        self.max_workers = int(max_workers)
        self._initializer = initializer
        self._initargs = initargs
        self.pid = len(self.ctx.pools)
        self.ctx.pools.append(self)
        self.workers = []
        self.queue = deque()
        self.tasks = []
        self.heap = []
        self.seq = 0
        self.broken = False
        self.closed = False
        self.assignment = []
        self.completion = []
        self.ctx.event("pool.new", self.pid, self.max_workers)
        self.ctx.probe("pool.created")

    # -- context manager ----------------------------------------------------
    def __enter__(self):
        return self

    def __exit__(self, exc_type, exc, tb):
        self.shutdown(wait=True)
        return False

    # -- forking ------------------------------------------------------------
    def _launch(self):
        n = min(self.max_workers, 32)
        inherited = []
        for p in self.ctx.pools:
            if p is not self:
                for w in p.workers:
                    if w.alive:
                        inherited.extend(w.fds())
        for i in range(n):
            close = list(inherited)
            for w in self.workers:
                close.extend(w.fds())
            self.workers.append(_Worker(self, i, close))
        self.ctx.event("pool.launch", self.pid, n)

    # -- submission ---------------------------------------------------------
    def submit(self, fn, /, *args, **kwargs):
        if self.broken:
            raise BrokenProcessPool(
                "A child process terminated abruptly, the process pool is not "
                "usable anymore")
        if self.closed:
            raise RuntimeError("cannot schedule new futures after shutdown")
        tid = len(self.tasks)
        fut = SimFuture(self, tid)
        try:
            payload = pickle.dumps((fn, args, kwargs), protocol=pickle.HIGHEST_PROTOCOL)
        except BaseException as exc:
            # the real executor reports pickling errors through the future
            task = _Task(tid, None, fut)
            task.state = "done"
            self.tasks.append(task)
            fut.set_exception(exc)
            self.ctx.event("pool.submit.unpicklable", self.pid, tid)
            return fut
        task = _Task(tid, payload, fut)
        self._plan(task)
        self.tasks.append(task)
        if not self.workers:
            self._launch()
        self.queue.append(task)
        self.ctx.event("pool.submit", self.pid, tid)
        self._feed()
        self._interleave("submit")
        return fut

    def _plan(self, task):
        """Draw the simulated duration and fault of a task."""
        ctx, tape = self.ctx, self.ctx.tape
        cfg = ctx.pool_cfg
        kind = tape.weighted([("fast", 12), ("slow", 3), ("stall", 1 if cfg["stall"] else 0)],
                             "task.kind")
        if kind == "fast":
            task.duration = tape.between(1, 100, "task.ms") * 1e-3
        elif kind == "slow":
            task.duration = tape.between(1, 100, "task.ds") * 0.1
        else:
            task.duration = float(tape.between(10, 1000, "task.stall_s"))
            ctx.fault("pool.stall")
        if (cfg["fault_kinds"] and ctx.pool_faults_fired < cfg["max_faults"]
                and tape.chance(cfg["fault_rate"][0], cfg["fault_rate"][1], "task.fault?")):
            fk = tape.choice(list(cfg["fault_kinds"]), "task.faultkind")
            when = tape.choice(["before", "after"], "task.faultwhen")
            if fk == "death":
                task.fault = ("death", when)
            elif fk == "inner":
                task.fault = ("inner", tape.choice(list(cfg.get("inner_excs") or ["oserror", "memory"]),
                                                   "task.inner_exc"))
            else:
                task.fault = ("exc", when,
                              tape.choice(["oserror", "memory", "runtime"], "task.exc"))
            ctx.pool_faults_fired += 1

    def map(self, fn, *iterables, timeout=None, chunksize=1):
        fs = [self.submit(fn, *args) for args in zip(*iterables)]

        def result_iterator():
            try:
                fs.reverse()
                while fs:
                    fut = fs.pop()
                    try:
                        yield fut.result()
                    finally:
                        del fut
            finally:
                for f in fs:
                    f.cancel()

        return result_iterator()

    # -- scheduling ---------------------------------------------------------
    def _push(self, t, kind, task):
        self.seq += 1
        heapq.heappush(self.heap, (t, self.seq, kind, task.tid))

    def _feed(self):
        """Hand queued tasks to idle workers (FIFO queue, tape picks the worker)."""
        while self.queue and not self.broken:
            idle = [w for w in self.workers if w.alive and w.busy is None]
            if not idle:
                return
            task = self.queue.popleft()
            if task.state != "queued":
                continue
            w = idle[self.ctx.tape.draw(len(idle), "pool.worker")]
            w.busy = task
            task.worker = w.idx
            task.state = "assigned"
            self._push(self.ctx.clock.now, "start", task)

    def _pending_events(self):
        return len(self.heap)

    def _step(self):
        """Process one scheduler event.  False if none is pending."""
        if not self.heap:
            return False
        t, _seq, kind, tid = heapq.heappop(self.heap)
        task = self.tasks[tid]
        ctx = self.ctx
        ctx.clock.advance_to(t)
        if self.broken:
            return True
        w = self.workers[task.worker]
        if kind == "start":
            task.state = "running"
            self.assignment.append((tid, w.idx))
            ctx.event("task.start", self.pid, tid, w.idx)
            if w.ntasks:
                ctx.probe("pool.worker_reused")
            w.ntasks += 1
            scramble = None
            if w.ntasks == 1 and ctx.pool_cfg["scramble_workers"]:
                scramble = ctx.tape.subseed("worker.scramble")
            if task.fault and task.fault[0] != "inner":
                ctx.fault("pool." + task.fault[0])
            if task.fault:
                ctx.event("task.fault", self.pid, tid, task.fault)
            if task.fault and task.fault[0] == "death":
                try:
                    _send(w.wfd, ("task", task.payload, task.fault, scramble))
                    # wait for the child to be gone
                    try:
                        _recv(w.rfd, CHILD_REPLY_TIMEOUT_S)
                    except EOFError:
                        pass
                except OSError:
                    pass
                w.stop(kill=True)
                task.reply = ("dead",)
            else:
                try:
                    task.reply = w.call(("task", task.payload, task.fault, scramble))
                except EOFError:
                    # the worker died on its own (real crash in the SUT)
                    w.stop(kill=True)
                    task.reply = ("dead",)
                    ctx.note(f"worker {w.idx} of pool {self.pid} died unprompted")
            task.payload = None
            if len(task.reply) > 3 and task.reply[3].get("inner_consumed"):
                ctx.fault("pool.inner")
                ctx.event("task.inner_fault_consumed", self.pid, tid)
            self._push(ctx.clock.now + task.duration, "done", task)
        else:  # done
            w.busy = None
            task.state = "done"
            self.completion.append(tid)
            ctx.event("task.done", self.pid, tid, w.idx, task.reply[0])
            rep = task.reply
            task.reply = None
            if rep[0] == "dead":
                self._break()
            else:
                fut = task.future
                if not fut.cancelled():
                    if rep[0] == "ok":
                        try:
                            fut.set_result(pickle.loads(rep[1]))
                        except BaseException as exc:
                            fut.set_exception(exc)
                    else:
                        exc = pickle.loads(rep[1])
                        try:
                            exc.__cause__ = _cfp._RemoteTraceback(rep[2])
                        except Exception:
                            pass
                        fut.set_exception(exc)
                self._feed()
        return True

    def _break(self):
        self.broken = True
        self.ctx.event("pool.broken", self.pid)
        err = ("A process in the process pool was terminated abruptly while the "
               "future was running or pending.")
        for task in self.tasks:
            fut = task.future
            if not _cf.Future.done(fut):
                fut.set_exception(BrokenProcessPool(err))
            task.state = "done"
        self.queue.clear()
        self.heap.clear()
        for w in self.workers:
            w.stop(kill=True)

    def _drive_until(self, fut):
        while not _cf.Future.done(fut):
            if not self._step():
                raise HarnessError(
                    f"SimPool {self.pid}: future {fut._sim_tid} can never complete")

    def _interleave(self, where):
        """Let the workers get a tape-chosen number of events ahead."""
        n = len(self.heap)
        if n == 0 or self.broken:
            return
        k = self.ctx.tape.weighted(
            [(0, 3), (1, 2), (2, 1), (n, 2), (max(1, n // 2), 1)], "pool.ahead." + where)
        for _ in range(min(k, 64)):
            if not self._step():
                break

    def _cancel(self, fut):
        task = self.tasks[fut._sim_tid]
        if task.state == "queued":
            task.state = "cancelled"
            _cf.Future.cancel(fut)
            fut.set_running_or_notify_cancel()
            self.ctx.event("task.cancel", self.pid, task.tid)
            return True
        return False

    # -- shutdown -----------------------------------------------------------
    def shutdown(self, wait=True, *, cancel_futures=False):
        if self.closed:
            return
        self.closed = True
        if cancel_futures:
            for task in self.tasks:
                if task.state == "queued":
                    self._cancel(task.future)
        # Like the real executor, pending work is finished either way (with
        # wait=False it would finish in the background); simulate it now.
        while self._step():
            pass
        self._record()
        for w in self.workers:
            w.stop()
        self.ctx.event("pool.shutdown", self.pid)

    def _record(self):
        sig = (tuple(self.assignment), tuple(self.completion))
        self.ctx.interleavings.append(sig)
        subm = [t for t, _w in self.assignment]
        if self.completion != sorted(self.completion):
            self.ctx.probe("pool.completion_reordered")
        if subm != sorted(subm):
            self.ctx.probe("pool.start_reordered")
        if len(self.tasks) > 1:
            self.ctx.probe("pool.multi_task")

    def _kill_all(self):
        for w in self.workers:
            w.stop(kill=True)


# -- module-level replacements for concurrent.futures functions -------------

def _pools_of(fs):
    pools = []
    for f in fs:
        if isinstance(f, SimFuture) and f._sim_pool not in pools:
            pools.append(f._sim_pool)
    return pools


def sim_as_completed(fs, timeout=None):
    fs = list(dict.fromkeys(fs))
    if not all(isinstance(f, SimFuture) for f in fs):
        yield from REAL_AS_COMPLETED(fs, timeout)
        return
    pending = list(fs)
    while pending:
        ready = [f for f in pending if _cf.Future.done(f)]
        if ready:
            # completion order = order in which the scheduler finished them
            ready.sort(key=lambda f: (f._sim_pool.pid,
                                      f._sim_pool.completion.index(f._sim_tid)
                                      if f._sim_tid in f._sim_pool.completion else -1))
            f = ready[0]
            pending.remove(f)
            yield f
            continue
        progressed = False
        pools = _pools_of(pending)
        if pools:
            # the pool whose next event is earliest moves
            pools = [p for p in pools if p.heap]
            if pools:
                p = min(pools, key=lambda p: (p.heap[0][0], p.pid))
                progressed = p._step()
        if not progressed:
            raise HarnessError("as_completed: futures can never complete")


def sim_wait(fs, timeout=None, return_when=_cf.ALL_COMPLETED):
    fs = list(dict.fromkeys(fs))
    if not all(isinstance(f, SimFuture) for f in fs):
        return REAL_WAIT(fs, timeout, return_when)

    def satisfied():
        done = [f for f in fs if _cf.Future.done(f)]
        if return_when == _cf.FIRST_COMPLETED:
            return bool(done)
        if return_when == _cf.FIRST_EXCEPTION:
            if any((not f.cancelled()) and _cf.Future.exception(f, 0) is not None
                   for f in done):
                return True
        return len(done) == len(fs)

    while not satisfied():
        pools = [p for p in _pools_of(fs) if p.heap]
        if not pools:
            raise HarnessError("wait: futures can never complete")
        p = min(pools, key=lambda p: (p.heap[0][0], p.pid))
        p._step()
    done = {f for f in fs if _cf.Future.done(f)}
    return _cf._base.DoneAndNotDoneFutures(done, set(fs) - done)


def install():
    """Point concurrent.futures at the simulator (call before importing the SUT)."""
    _cf.ProcessPoolExecutor = SimPool
    _cf.as_completed = sim_as_completed
    _cf.wait = sim_wait
    _cfp.ProcessPoolExecutor = SimPool


def uninstall():
    _cf.ProcessPoolExecutor = REAL_PPE
    _cf.as_completed = REAL_AS_COMPLETED
    _cf.wait = REAL_WAIT
    _cfp.ProcessPoolExecutor = REAL_PPE
