"""Seed search, replay, minimisation, evidence and exit codes.

The runner never imports the SUT.  It starts J warm worker interpreters
(`sim.worker_main`), feeds them one job at a time, and aggregates.
"""
import argparse
import collections
import hashlib
import json
import os
import queue
import shutil
import subprocess
import sys
import threading
import time

from .tape import derive_seed

VERIF = os.path.dirname(os.path.dirname(os.path.abspath(__file__)))
PY = os.environ.get("VERIF_PYTHON", "/venv/bin/python")

EXIT_OK, EXIT_VIOLATION, EXIT_HARNESS = 0, 1, 3


def base_env(hashseed="0", scratch=None):
    env = dict(os.environ)
    env.update({
        "PYTHONHASHSEED": str(hashseed),
        "OMP_NUM_THREADS": "1",
        "OPENBLAS_NUM_THREADS": "1",
        "MKL_NUM_THREADS": "1",
        "NUMEXPR_NUM_THREADS": "1",
        "MPLBACKEND": "Agg",
        "PYTHONDONTWRITEBYTECODE": "1",
        "PYTHONUNBUFFERED": "1",
        "PYTHONWARNINGS": "ignore",
        "TZ": "UTC",
        "LC_ALL": "C.UTF-8",
    })
    repo = env.get("VERIF_REPO", "/repo")
    env["VERIF_REPO"] = repo
    env["PYTHONPATH"] = VERIF + os.pathsep + repo
    if scratch:
        env["VERIF_SCRATCH"] = scratch
        env["TMPDIR"] = scratch
        env["MPLCONFIGDIR"] = os.path.join(scratch, "mpl")
    return env


def make_scratch():
    for root in (os.environ.get("VERIF_SCRATCH_ROOT"), "/dev/shm", os.environ.get("TMPDIR"), "/tmp"):
        if root and os.path.isdir(root) and os.access(root, os.W_OK):
            d = os.path.join(root, f"verif-{os.getpid()}-{int(time.time())}")
            os.makedirs(d, exist_ok=True)
            return d
    raise RuntimeError("no scratch directory")


class Worker:
    def __init__(self, prop, tier, env, logdir, name):
        self.prop, self.tier, self.env = prop, tier, env
        self.logpath = os.path.join(logdir, f"worker-{name}.log")
        self.proc = None
        self.hashseed = env.get("PYTHONHASHSEED")
        self.start()

    def start(self):
        self.log = open(self.logpath, "ab")
        self.proc = subprocess.Popen(
            [PY, "-m", "sim.worker_main", self.prop, self.tier],
            cwd=VERIF, env=self.env, stdin=subprocess.PIPE, stdout=subprocess.PIPE,
            stderr=self.log, text=True, bufsize=1)
        line = self.proc.stdout.readline()
        if not line:
            raise RuntimeError(f"worker failed to start; see {self.logpath}:\n"
                               + self.tail())
        self.ready = json.loads(line)

    def tail(self, n=30):
        try:
            with open(self.logpath, "rb") as fh:
                return b"".join(fh.readlines()[-n:]).decode("utf8", "replace")
        except OSError:
            return ""

    def run(self, job):
        try:
            self.proc.stdin.write(json.dumps(job) + "\n")
            self.proc.stdin.flush()
            line = self.proc.stdout.readline()
        except (BrokenPipeError, OSError):
            line = ""
        if not line:
            msg = f"worker interpreter died; log tail:\n{self.tail()}"
            self.close(kill=True)
            self.start()
            return {"job": job["job"], "status": "harness_error", "message": msg,
                    "seed": job.get("seed")}
        return json.loads(line)

    def close(self, kill=False):
        if self.proc is None:
            return
        try:
            if kill:
                self.proc.kill()
            else:
                self.proc.stdin.write(json.dumps({"exit": True}) + "\n")
                self.proc.stdin.flush()
                self.proc.stdin.close()
        except (BrokenPipeError, OSError, ValueError):
            pass
        try:
            self.proc.wait(timeout=20)
        except subprocess.TimeoutExpired:
            self.proc.kill()
            self.proc.wait()
        self.proc = None
        try:
            self.log.close()
        except Exception:
            pass


class Farm:
    """J warm workers; map() runs jobs with dynamic load balancing."""

    def __init__(self, prop, tier, jobs, scratch, hashseed="0", tag="w"):
        self.prop, self.tier = prop, tier
        self.scratch = scratch
        env = base_env(hashseed, scratch)
        self.workers = [None] * jobs
        errs = []

        def boot(i):
            try:
                self.workers[i] = Worker(prop, tier, env, scratch, f"{tag}{i}")
            except Exception as exc:  # noqa: BLE001
                errs.append(str(exc))

        ths = [threading.Thread(target=boot, args=(i,)) for i in range(jobs)]
        for t in ths:
            t.start()
        for t in ths:
            t.join()
        if errs:
            self.close()
            raise RuntimeError(errs[0])

    def map(self, jobs, deadline=None, stop_when=None, on_result=None):
        """Run jobs (list of dicts with 'job').  Returns {job: result}."""
        q = queue.Queue()
        for j in jobs:
            q.put(j)
        results = {}
        lock = threading.Lock()
        stop = threading.Event()

        def loop(w):
            while not stop.is_set():
                if deadline is not None and time.monotonic() > deadline:
                    return
                try:
                    job = q.get_nowait()
                except queue.Empty:
                    return
                res = w.run(job)
                with lock:
                    results[job["job"]] = res
                    if on_result:
                        on_result(res)
                    if stop_when and stop_when(res):
                        stop.set()

        ths = [threading.Thread(target=loop, args=(w,)) for w in self.workers]
        for t in ths:
            t.start()
        for t in ths:
            t.join()
        return results

    def close(self):
        for w in self.workers:
            if w is not None:
                w.close()


# ---------------------------------------------------------------------------
# known findings


def load_known(prop):
    path = os.path.join(VERIF, "known_findings.json")
    try:
        with open(path) as fh:
            doc = json.load(fh)
    except FileNotFoundError:
        return []
    return [e for e in doc.get("findings", [])
            if e.get("property") == prop and e.get("status") == "known"]


def match_known(known, res):
    """A violation is known iff its finding key starts with a listed key."""
    key = res.get("key", "")
    for e in known:
        if key == e["key"] or key.startswith(e["key"] + "/"):
            return e
    return None


# ---------------------------------------------------------------------------
# minimisation (on the tape)


def _strip(t):
    while t and t[-1] == 0:
        t.pop()
    return t


def shrink(farm, res, budget_runs=900, budget_s=300.0, note=None):
    """Tape reduction keeping the same violation class (clause + finding key).

    Passes, repeated to a fixed point: (1) zero ranges of values, halving the
    range size (0 is always the simplest choice); (2) truncate the tail;
    (3) delete blocks; (4) halve / decrement single values.  Candidates of one
    pass are evaluated in parallel on the farm; the first one (in pass order)
    that still shows the same violation is accepted.
    """
    target = (res.get("clause"), res.get("key"))
    state = {"best": list(res["tape"]), "res": res}
    t0 = time.monotonic()
    used = [0]
    jobno = [10_000_000]
    width = max(1, len(farm.workers))

    def same(r):
        return r.get("status") == "violation" and (r.get("clause"), r.get("key")) == target

    def budget_left():
        return used[0] < budget_runs and time.monotonic() - t0 < budget_s

    def try_batch(cands):
        """Evaluate candidates in parallel; accept the first that reproduces."""
        if not cands or not budget_left():
            return None
        cands = list(cands)
        jobs = []
        seen = {tuple(state["best"])}
        for c in cands:
            c = _strip(list(c))
            if tuple(c) in seen:
                continue
            seen.add(tuple(c))
            jobno[0] += 1
            j = {"job": jobno[0], "tape": c, "want_tape": True}
            if res.get("opts"):
                j["opts"] = res["opts"]
            jobs.append(j)
        if not jobs:
            return None
        used[0] += len(jobs)
        out = farm.map(jobs)
        for i, j in enumerate(jobs):
            r = out.get(j["job"])
            if r and same(r):
                r["seed"] = res.get("seed")
                state["best"] = _strip(list(r["tape"]))  # what the run consumed, normalised
                state["res"] = r
                return i
        return None

    def sweep(make, positions):
        """Try make(pos) for every position, `width` at a time.  Returns True on any hit."""
        any_hit = False
        i = 0
        while i < len(positions) and budget_left():
            batch = []
            while i < len(positions) and len(batch) < width:
                c = make(positions[i])
                if c is not None:
                    batch.append(c)
                i += 1
            if try_batch(batch) is not None:
                any_hit = True
                return True  # positions are stale now; caller restarts the sweep
        return any_hit

    state["best"] = list(res["tape"]) + [0]  # force one re-execution of the original
    if try_batch([list(res["tape"])]) is None:
        if note is not None:
            note.append("violation did not reproduce on re-execution of its own tape")
        return res, False

    progress = True
    while progress and budget_left():
        progress = False
        # (1) zero ranges
        size = max(1, len(state["best"]) // 2)
        while size >= 1 and budget_left():
            def make(start, size=size):
                b = state["best"]
                if start >= len(b) or not any(b[start:start + size]):
                    return None
                return b[:start] + [0] * len(b[start:start + size]) + b[start + size:]
            while sweep(make, list(range(0, len(state["best"]), size))):
                progress = True
            size //= 2
        # (2) truncate the tail
        n = len(state["best"])
        cuts = sorted({n * k // 8 for k in range(0, 8)} | {max(0, n - 1), max(0, n - 2)})
        if try_batch([state["best"][:c] for c in cuts if c < n]) is not None:
            progress = True
        # (3) delete blocks
        for size in (16, 8, 4, 2, 1):
            def make(start, size=size):
                b = state["best"]
                if start >= len(b):
                    return None
                return b[:start] + b[start + size:]
            while sweep(make, list(range(0, len(state["best"]), size))):
                progress = True
        # (4) halve, then decrement, single values
        for mode in ("halve", "dec", "dec2", "dec3", "dec5"):
            def make(k, mode=mode):
                b = state["best"]
                step = {"halve": 0, "dec": 1, "dec2": 2, "dec3": 3, "dec5": 5}[mode]
                if k >= len(b) or b[k] <= max(1, step) - (0 if mode == "halve" else 1):
                    return None
                c = list(b)
                c[k] = b[k] // 2 if mode == "halve" else b[k] - step
                if c[k] < 0 or c[k] == b[k]:
                    return None
                return c
            rounds = 0
            while sweep(make, list(range(len(state["best"])))) and rounds < 40:
                progress = True
                rounds += 1
    if note is not None:
        note.append(f"shrink: {used[0]} executions, {time.monotonic() - t0:.1f}s, "
                    f"{len(res['tape'])} -> {len(state['best'])} draws")
    return state["res"], True


# ---------------------------------------------------------------------------


def repo_state(repo):
    def git(*a):
        try:
            return subprocess.run(["git", "-C", repo] + list(a), capture_output=True,
                                  text=True, timeout=30).stdout.strip()
        except Exception:
            return ""
    return {"head": git("rev-parse", "HEAD"),
            "dirty": bool(git("status", "--porcelain", "--untracked-files=no"))}


def write_replay(prop, res, tier, extra=None):
    os.makedirs(os.path.join(VERIF, "replays"), exist_ok=True)
    seed = res.get("seed")
    th = hashlib.blake2b(json.dumps(res.get("tape")).encode(), digest_size=4).hexdigest()
    name = f"{prop}-{res.get('clause', 'X')}-{seed if seed is not None else 'tape'}-{th}.json"
    path = os.path.join(VERIF, "replays", name)
    doc = {
        "property": prop,
        "clause": res.get("clause"),
        "key": res.get("key"),
        "message": res.get("message"),
        "seed": seed,
        "tier": tier,
        "tape": res.get("tape"),
        "tape_labels": res.get("tape_labels"),
        "plan": res.get("plan"),
        "opts": res.get("opts"),
        "schedule_digest": res.get("schedule_digest"),
        "result_digest": res.get("result_digest"),
        "hashseed": res.get("hashseed", "0"),
        "repo": repo_state(os.environ.get("VERIF_REPO", "/repo")),
    }
    if extra:
        doc.update(extra)
    with open(path, "w") as fh:
        json.dump(doc, fh, indent=1, default=str)
    return path


TIERS = {
    # runs, wall budget (s) for the search phase, determinism sample size
    "quick": {"C03": (900, 150, 12), "C09": (800, 150, 12), "C10": (400, 200, 12)},
    "thorough": {"C03": (60000, 1500, 48), "C09": (50000, 1500, 48), "C10": (20000, 1800, 48)},
}


def main(argv=None):
    ap = argparse.ArgumentParser(prog="check")
    ap.add_argument("prop")
    ap.add_argument("--tier", default=os.environ.get("VERIF_TIER", "quick"),
                    choices=["quick", "thorough"])
    ap.add_argument("--replay")
    ap.add_argument("--runs", type=int)
    ap.add_argument("--budget-s", type=float,
                    default=float(os.environ["VERIF_BUDGET_S"]) if os.environ.get("VERIF_BUDGET_S") else None)
    ap.add_argument("--jobs", type=int, default=int(os.environ.get("VERIF_JOBS", "0")) or None)
    ap.add_argument("--seed", type=int, default=int(os.environ.get("VERIF_SEED", "1") or 1))
    ap.add_argument("--no-evidence", action="store_true")
    ap.add_argument("--no-shrink", action="store_true")
    ap.add_argument("--opts", default=None, help="JSON of check-specific options")
    ap.add_argument("--dump-digests", help="write per-run digests to this file")
    ap.add_argument("--start", type=int, default=0, help="first run index")
    args = ap.parse_args(argv)

    prop = args.prop.upper()
    jobs = args.jobs or min(16, os.cpu_count() or 4)
    scratch = make_scratch()
    code = EXIT_HARNESS
    try:
        sys.path.insert(0, VERIF)
        from checks import registry
        spec = registry.get(prop)
        if args.replay:
            code = do_replay(prop, spec, args, scratch)
        else:
            code = do_search(prop, spec, args, jobs, scratch)
    except Exception as exc:  # noqa: BLE001
        import traceback
        traceback.print_exc()
        print(f"HARNESS-ERROR property={prop} {type(exc).__name__}: {exc}")
        code = EXIT_HARNESS
    finally:
        shutil.rmtree(scratch, ignore_errors=True)
    return code


def do_replay(prop, spec, args, scratch):
    with open(args.replay) as fh:
        doc = json.load(fh)
    doc["_path"] = args.replay
    tier = doc.get("tier") or args.tier
    hashseed = str(doc.get("hashseed", "0"))
    farm = Farm(prop, tier, 1, scratch, hashseed=hashseed, tag="r")
    try:
        if doc.get("replay_kind") and hasattr(spec, "replay_special"):
            return spec.replay_special(doc, farm, scratch)
        job = {"job": 0, "tape": doc["tape"], "want_tape": True, "seed": doc.get("seed")}
        if doc.get("opts"):
            job["opts"] = doc["opts"]
        res = farm.map([job])[0]
    finally:
        farm.close()
    print(f"replay: status={res.get('status')} clause={res.get('clause')} key={res.get('key')}")
    print(f"replay: schedule_digest={res.get('schedule_digest')} (recorded {doc.get('schedule_digest')})")
    print(f"replay: result_digest={res.get('result_digest')} (recorded {doc.get('result_digest')})")
    if res.get("status") == "harness_error":
        print(f"HARNESS-ERROR property={prop} {res.get('message')}")
        print(res.get("traceback", ""))
        return EXIT_HARNESS
    if res.get("status") == "violation":
        print(f"  {res.get('message')}")
        print(f"VIOLATION property={prop} replay={os.path.abspath(args.replay)}")
        return EXIT_VIOLATION
    print("replay: property held on this trace")
    return EXIT_OK


def do_search(prop, spec, args, jobs, scratch):
    t_start = time.monotonic()
    tier = args.tier
    n_runs, budget, n_det = TIERS[tier][prop]
    if args.runs:
        n_runs = args.runs
    if args.budget_s:
        budget = args.budget_s
    opts = json.loads(args.opts) if args.opts else None
    print(f"check {prop} tier={tier} VERIF_SEED={args.seed} runs<={n_runs} "
          f"budget={budget:.0f}s jobs={jobs} repo={os.environ.get('VERIF_REPO', '/repo')}")
    sys.stdout.flush()
    farm = Farm(prop, tier, jobs, scratch, hashseed="0")
    t_boot = time.monotonic() - t_start
    agg = Aggregate(prop)
    harness_errors = []
    violations = []
    known = load_known(prop)
    try:
        joblist = []
        for i in range(args.start, args.start + n_runs):
            j = {"job": i, "seed": derive_seed(args.seed, prop, i)}
            if opts:
                j["opts"] = opts
            joblist.append(j)

        def on_result(res):
            agg.add(res)
            if res.get("status") == "harness_error":
                harness_errors.append(res)
            elif res.get("status") == "violation":
                violations.append(res)

        def stop_when(_res):
            return len(harness_errors) >= 3 or len({v.get("key") for v in violations}) >= 6

        deadline = time.monotonic() + budget
        farm.map(joblist, deadline=deadline, stop_when=stop_when, on_result=on_result)
        search_wall = time.monotonic() - t_start - t_boot
        if args.dump_digests:
            with open(args.dump_digests, "w") as fh:
                json.dump({str(k): v for k, v in sorted(agg.digests.items())}, fh, indent=0)

        # extra phases owned by the check (exhaustive crash points, hash-seed replicas)
        extra = {}
        if hasattr(spec, "extra_phases") and not harness_errors:
            extra = spec.extra_phases(farm, tier, args, scratch, agg) or {}
            for v in extra.pop("violations", []):
                violations.append(v)
            for h in extra.pop("harness_errors", []):
                harness_errors.append(h)

        # determinism self-test on a sample of this batch (fresh interpreter,
        # other hash seed): schedule digests must agree
        det = {"sampled": 0, "schedule_mismatch": 0, "result_mismatch": 0}
        if not harness_errors and n_det and agg.n:
            det = determinism_sample(prop, tier, agg, n_det, scratch, opts, harness_errors, violations)

        # --- verdict ----------------------------------------------------------
        reported = []
        known_hits = collections.OrderedDict()
        if not harness_errors:
            by_key = collections.OrderedDict()
            for v in sorted(violations, key=lambda r: (r.get("job", 0))):
                by_key.setdefault(v.get("key"), v)
            for key, v in by_key.items():
                e = match_known(known, v)
                if e is not None:
                    known_hits.setdefault(e["key"], (e, v))
                    continue
                if len(reported) >= 4:
                    continue
                notes = []
                small = v
                if not args.no_shrink and v.get("tape") and not v.get("no_shrink"):
                    small, _ok = shrink(farm, v, note=notes)
                path = write_replay(prop, small, tier, extra={
                    "original_tape_len": len(v.get("tape") or []), "shrink_notes": notes,
                    "replay_kind": small.get("replay_kind")})
                reported.append((small, path))
    finally:
        farm.close()

    wall = time.monotonic() - t_start
    if harness_errors:
        h = harness_errors[0]
        print(f"HARNESS-ERROR property={prop} {h.get('message')}")
        if h.get("traceback"):
            print(h["traceback"])
        print(f"({len(harness_errors)} harness errors; no verdict)")
        return EXIT_HARNESS

    for _k, (e, v) in known_hits.items():
        print(f"KNOWN-FINDING: property={prop} {e['key']}: {e.get('what', '')}")
    for small, path in reported:
        print(f"  clause={small.get('clause')} key={small.get('key')}")
        print(f"  {small.get('message')}")
        print(f"VIOLATION property={prop} replay={path}")

    # observations that are not violations of the property (never change the exit code)
    for n, c in agg.notes.most_common(5):
        print(f"NOTE: property={prop} {n} (x{c})")
    if not args.no_evidence:
        write_evidence(prop, spec, tier, args.seed, agg, wall, search_wall, det, extra,
                       len(reported), known_hits, jobs)
    rate = agg.n / max(search_wall, 1e-9) * 3600
    print(f"{prop}: boot {t_boot:.1f}s, total {wall:.1f}s")
    print(f"{prop}: {agg.n} simulated runs in {search_wall:.1f}s search ({rate:,.0f}/h), "
          f"{agg.sim_seconds:,.0f} simulated s, faults fired {dict(agg.faults)}, "
          f"distinct interleavings {len(agg.interleavings)}, "
          f"distinct nontrivial cases {len(agg.nontrivial)}; "
          f"determinism sample {det}; violations={len(reported)} known={len(known_hits)}")
    return EXIT_VIOLATION if reported else EXIT_OK


def determinism_sample(prop, tier, agg, n_det, scratch, opts, harness_errors, violations=None):
    """Re-execute a sample of the runs that held in fresh interpreters: same hash
    seed and a different one.  Schedule digests must match (else the harness is
    broken).  A run that held under hash seed 0 and reports a violation in the
    re-execution is a violation (with the hash seed recorded in its replay file);
    its schedule legitimately stops earlier, so digests are not compared then."""
    ok_jobs = [j for j, d in sorted(agg.digests.items())
               if d[0] is not None and agg.status.get(j) == "ok"]
    if not ok_jobs:
        return {"sampled": 0, "schedule_mismatch": 0, "result_mismatch": 0}
    step = max(1, len(ok_jobs) // n_det)
    sample = ok_jobs[::step][:n_det]
    det = {"sampled": len(sample), "schedule_mismatch": 0, "result_mismatch": 0,
           "hashseeds": ["0", "4242"]}
    for hs, nw in (("0", 2), ("4242", 3)):
        farm2 = Farm(prop, tier, nw, scratch, hashseed=hs, tag=f"d{hs}-")
        try:
            jl = []
            for j in sample:
                jj = {"job": j, "seed": agg.seeds[j]}
                if opts:
                    jj["opts"] = opts
                jl.append(jj)
            out = farm2.map(jl)
        finally:
            farm2.close()
        for j in sample:
            r = out.get(j)
            if r is None or r.get("status") == "harness_error":
                harness_errors.append(r or {"message": "determinism re-run missing"})
                continue
            if r.get("status") == "violation":
                if violations is not None:
                    r["hashseed"] = hs
                    r["message"] = (f"[held under PYTHONHASHSEED=0, fails in a fresh interpreter under "
                                    f"PYTHONHASHSEED={hs}] " + str(r.get("message")))
                    r["no_shrink"] = True
                    violations.append(r)
                det["result_mismatch"] += 1
                continue
            sd, rd = agg.digests[j]
            if r.get("schedule_digest") != sd:
                det["schedule_mismatch"] += 1
                harness_errors.append({
                    "message": f"schedule digest of seed {agg.seeds[j]} differs between two "
                               f"executions (PYTHONHASHSEED={hs}): {sd} vs {r.get('schedule_digest')}"})
            elif r.get("result_digest") != rd:
                det["result_mismatch"] += 1
    return det


class Aggregate:
    def __init__(self, prop):
        self.prop = prop
        self.n = 0
        self.n_ok = 0
        self.faults = collections.Counter()
        self.probes = collections.Counter()
        self.pop = collections.Counter()
        self.interleavings = set()
        self.nontrivial = set()
        self.sim_seconds = 0.0
        self.samples = []
        self.digests = {}
        self.step_digests = {}
        self.status = {}
        self.seeds = {}
        self.run_wall = 0.0
        self.configs = collections.Counter()
        self.extra_counts = collections.Counter()
        self.notes = collections.Counter()

    def add(self, res):
        if res.get("status") == "harness_error":
            return
        self.n += 1
        if res.get("status") == "ok":
            self.n_ok += 1
        j = res.get("job")
        self.seeds[j] = res.get("seed")
        self.status[j] = res.get("status")
        self.digests[j] = (res.get("schedule_digest"), res.get("result_digest"))
        if res.get("step_digests") is not None:
            self.step_digests[j] = (res.get("status"), res.get("step_digests"))
        for k, v in (res.get("faults") or {}).items():
            self.faults[k] += v
        for k, v in (res.get("probes") or {}).items():
            self.probes[k] += v
        self.pop[res.get("population", "faultfree")] += 1
        for h in res.get("interleavings") or []:
            self.interleavings.add(h)
        if res.get("nontrivial"):
            self.nontrivial.add(res.get("case_sig"))
        self.sim_seconds += float(res.get("sim_seconds") or 0)
        self.run_wall += float(res.get("wall_s") or 0)
        if res.get("config_class"):
            self.configs[res["config_class"]] += 1
        for n in res.get("notes") or []:
            self.notes[n] += 1
        if res.get("plan") is not None and len(self.samples) < 3 and res.get("nontrivial"):
            self.samples.append({"seed": res.get("seed"), "plan": res.get("plan")})


def write_evidence(prop, spec, tier, seed, agg, wall, search_wall, det, extra,
                   n_viol, known_hits, jobs):
    os.makedirs(os.path.join(VERIF, "evidence"), exist_ok=True)
    cov = {
        "evaluations": agg.n + int(extra.get("evaluations", 0)),
        "distinct_nontrivial": len(agg.nontrivial) + int(extra.get("distinct_nontrivial", 0)),
        "rule": spec.RULE,
        "samples": agg.samples + list(extra.get("samples", [])),
        "exhaustive": False,
        "simulated_runs": agg.n,
        "runs_per_hour": round(agg.n / max(search_wall, 1e-9) * 3600),
        "seeds_per_hour": round(agg.n / max(search_wall, 1e-9) * 3600),
        "search_wall_s": round(search_wall, 1),
        "worker_processes": jobs,
        "simulated_seconds_covered": round(agg.sim_seconds, 3),
        "populations": dict(agg.pop),
        "faults_fired": dict(sorted(agg.faults.items())),
        "probes": dict(sorted(agg.probes.items())),
        "distinct_pool_interleavings": len(agg.interleavings),
        "interleaving_measure": "hash of per-pool (task->worker assignment in start order, completion order)",
        "configuration_classes": dict(sorted(agg.configs.items())),
        "determinism_selftest": det,
        "components": spec.COMPONENTS,
        "known_findings_hit": [k for k in known_hits],
    }
    for k, v in extra.items():
        if k not in ("evaluations", "distinct_nontrivial", "samples"):
            cov[k] = v
    cov["notes_not_violations"] = dict(agg.notes.most_common(10))
    doc = {
        "property_id": prop,
        "tier": tier,
        "seed": int(seed),
        "level": "exploration",
        "coverage": cov,
        "assumptions": spec.ASSUMPTIONS,
        "wall_s": round(wall, 2),
        "violations": int(n_viol),
    }
    path = os.path.join(VERIF, "evidence", f"{prop}.json")
    tmp = path + ".tmp"
    with open(tmp, "w") as fh:
        json.dump(doc, fh, indent=1, default=str)
    os.replace(tmp, path)


if __name__ == "__main__":
    sys.exit(main())
