"""Choice tape: the single source of every random decision in a simulated run.

Record mode draws from ``random.Random(seed)`` and appends every drawn integer.
Replay mode returns the recorded integers in order (reduced modulo the
requested range) and 0 once the tape is exhausted.  By convention 0 is always
the *simplest* choice, so zeroing / deleting tape entries simplifies the run.

Nothing in here reads a clock, a PID or any other ambient state.
"""
import hashlib
import random


def derive_seed(base, prop, index):
    """Seed of run `index` of property `prop` under base seed `base`."""
    h = hashlib.blake2b(f"{base}/{prop}/{index}".encode(), digest_size=8)
    return int.from_bytes(h.digest(), "big") >> 1


class Tape:
    def __init__(self, seed=None, values=None):
        self.seed = seed
        self.replay = values is not None
        self.values = list(values) if values is not None else []
        self.pos = 0
        self._rng = None if self.replay else random.Random(seed)
        self.labels = []  # parallel to consumed values: (label, n)
        self.overrun = 0  # draws past the end of a replayed tape

    # -- primitive ---------------------------------------------------------
    def draw(self, n, label=""):
        """Integer in [0, n).  n <= 1 consumes nothing."""
        n = int(n)
        if n <= 1:
            return 0
        if self.replay:
            if self.pos < len(self.values):
                v = int(self.values[self.pos]) % n
            else:
                v = 0
                self.overrun += 1
        else:
            v = self._rng.randrange(n)
            self.values.append(v)
        self.pos += 1
        self.labels.append((label, n))
        return v

    # -- helpers (all defined through draw) -------------------------------
    def chance(self, num, den, label=""):
        """True with probability num/den; a zero on the tape means False."""
        if num <= 0:
            return False
        if num >= den:
            return True
        return self.draw(den, label) >= den - num

    def between(self, lo, hi, label=""):
        """Integer in [lo, hi]; zero on the tape means lo."""
        if hi <= lo:
            return lo
        return lo + self.draw(hi - lo + 1, label)

    def choice(self, seq, label=""):
        return seq[self.draw(len(seq), label)]

    def weighted(self, pairs, label=""):
        """pairs = [(value, weight), ...]; zero on the tape means the first."""
        total = sum(w for _v, w in pairs)
        x = self.draw(total, label)
        acc = 0
        for v, w in pairs:
            acc += w
            if x < acc:
                return v
        return pairs[-1][0]

    def subseed(self, label=""):
        """A 31-bit seed for a bulk numpy Generator."""
        return self.draw(1 << 31, label)

    def shuffle(self, seq, label=""):
        """Fisher-Yates through the tape; an all-zero tape keeps the order."""
        seq = list(seq)
        for i in range(len(seq) - 1):
            j = i + self.draw(len(seq) - i, label)
            seq[i], seq[j] = seq[j], seq[i]
        return seq

    # -- bookkeeping --------------------------------------------------------
    def consumed(self):
        """Values actually consumed so far (trailing garbage dropped)."""
        if self.replay:
            vals = list(self.values[: self.pos])
            vals += [0] * (self.pos - len(vals))
            # normalise to what was used
            return [int(v) % n for v, (_l, n) in zip(vals, self.labels)]
        return list(self.values)

    def labelled(self):
        return [[lab, n, v] for (lab, n), v in zip(self.labels, self.consumed())]

    def digest(self):
        h = hashlib.blake2b(digest_size=8)
        for (lab, n), v in zip(self.labels, self.consumed()):
            h.update(f"{lab}:{n}:{v};".encode())
        return h.hexdigest()
