"""Pristine-process reference model.

`RefServer` is forked at the very start of a run, before any operation of the
history has executed, and never executes an operation itself: for every request
it forks a grandchild that unpickles fresh copies of the argument snapshots,
runs the operation serially with a fixed RNG state and no faults, and returns
the canonical form of the result.  History, worker assignment, RNG state and
aliasing of the main run cannot reach it.
"""
import os
import pickle
import select
import signal
import struct
import traceback

from . import ctx as _ctx
from .simpool import HarnessError, _set_pdeathsig
from .tape import Tape

REPLY_TIMEOUT_S = 150.0


def _send(fd, obj):
    data = pickle.dumps(obj, protocol=pickle.HIGHEST_PROTOCOL)
    data = struct.pack("<Q", len(data)) + data
    view = memoryview(data)
    while view:
        n = os.write(fd, view)
        view = view[n:]


def _recv(fd, timeout=None):
    def exact(n):
        chunks, got = [], 0
        while got < n:
            if timeout is not None:
                r, _, _ = select.select([fd], [], [], timeout)
                if not r:
                    raise HarnessError("timeout waiting for the reference server")
            b = os.read(fd, min(1 << 20, n - got))
            if not b:
                raise EOFError
            chunks.append(b)
            got += len(b)
        return b"".join(chunks)

    (n,) = struct.unpack("<Q", exact(8))
    return pickle.loads(exact(n))


class RefServer:
    def __init__(self, evaluate):
        """evaluate(request) -> reply; runs in a grandchild."""
        p2c_r, p2c_w = os.pipe()
        c2p_r, c2p_w = os.pipe()
        pid = os.fork()
        if pid == 0:
            try:
                _set_pdeathsig()
                os.close(p2c_w)
                os.close(c2p_r)
                self._serve(p2c_r, c2p_w, evaluate)
            except BaseException:
                traceback.print_exc()
            finally:
                os._exit(0)
        os.close(p2c_r)
        os.close(c2p_w)
        self.pid, self.wfd, self.rfd = pid, p2c_w, c2p_r
        self.requests = 0

    @staticmethod
    def _serve(rfd, wfd, evaluate):
        import random

        import numpy as np

        _ctx.install(_ctx.SimContext(Tape(values=[]), prop="reference"))
        while True:
            try:
                req = _recv(rfd)
            except EOFError:
                return
            if req is None:
                return
            r, w = os.pipe()
            pid = os.fork()
            if pid == 0:
                code = 0
                try:
                    _set_pdeathsig()
                    os.close(r)
                    np.random.seed(20240229)
                    random.seed(20240229)
                    try:
                        reply = ("ok", evaluate(req))
                    except BaseException as exc:  # noqa: BLE001
                        reply = ("harness", f"{type(exc).__name__}: {exc}\n{traceback.format_exc()}")
                    _send(w, reply)
                except BaseException:
                    traceback.print_exc()
                    code = 1
                finally:
                    os._exit(code)
            os.close(w)
            try:
                reply = _recv(r, REPLY_TIMEOUT_S)
            except (EOFError, HarnessError) as exc:
                reply = ("harness", f"reference evaluation died: {exc!r}")
                try:
                    os.kill(pid, signal.SIGKILL)
                except OSError:
                    pass
            os.close(r)
            try:
                os.waitpid(pid, 0)
            except ChildProcessError:
                pass
            _send(wfd, reply)

    def eval(self, request):
        self.requests += 1
        _send(self.wfd, request)
        try:
            status, payload = _recv(self.rfd, REPLY_TIMEOUT_S + 10)
        except EOFError:
            raise HarnessError("reference server died")
        if status != "ok":
            raise HarnessError("reference evaluation failed: " + str(payload))
        return payload

    def close(self):
        try:
            _send(self.wfd, None)
        except OSError:
            pass
        for fd in (self.wfd, self.rfd):
            try:
                os.close(fd)
            except OSError:
                pass
        try:
            os.waitpid(self.pid, 0)
        except ChildProcessError:
            pass
