"""Per-run simulator context: tape, clock, event log, fault plan, probes.

One `SimContext` is current at a time (module global `CUR`).  Every simulator
component (SimPool, SimClock, FS interposer, perturbator) draws from its tape
and appends to its event log.  The log is the *schedule history* of the run;
`schedule_digest()` hashes it together with the tape.
"""
import hashlib
from collections import Counter

CUR = None


class SimCrash(BaseException):
    """Injected process crash (kill -9 between two system calls)."""


class SimClock:
    """Simulated wall clock.  Advanced only by the scheduler and by reads."""

    EPOCH = 1_700_000_000.0

    def __init__(self, ctx):
        self.ctx = ctx
        self.now = 0.0  # simulated seconds since run start
        self.offset = self.EPOCH
        self.mode = "normal"  # normal | stall | jump_fwd | jump_back | mixed
        self.reads = 0

    def advance_to(self, t):
        if t > self.now:
            self.now = t

    def advance(self, dt):
        if dt > 0:
            self.now += dt

    def read(self):
        """What the SUT sees when it calls time.time()."""
        ctx = self.ctx
        self.reads += 1
        mode = self.mode
        if mode == "mixed":
            mode = ctx.tape.choice(
                ["normal", "stall", "jump_fwd", "jump_back"], "clock.mixed"
            )
        if mode == "normal":
            self.now += ctx.tape.between(1, 2000, "clock.tick") * 1e-6
        elif mode == "stall":
            ctx.fault("clock.stall")
        elif mode == "jump_fwd":
            self.offset += 10.0 ** ctx.tape.between(0, 9, "clock.fwd")
            ctx.fault("clock.jump_fwd")
        elif mode == "jump_back":
            self.offset -= 10.0 ** ctx.tape.between(0, 8, "clock.back")
            ctx.fault("clock.jump_back")
        val = self.offset + self.now
        ctx.event("clock.read", self.reads, round(val, 6))
        return val


class SimContext:
    def __init__(self, tape, prop=""):
        self.tape = tape
        self.prop = prop
        self.clock = SimClock(self)
        self.events = []  # schedule history (harness decisions only)
        self.faults = Counter()  # fault kind -> times actually fired
        self.probes = Counter()  # reach probes
        self.pools = []  # every SimPool created in this run
        self.ncpu = 4  # what os.cpu_count() means for max_workers=None
        self.pool_cfg = {
            "scramble_workers": False,  # scramble RNG state of workers at start
            "fault_kinds": (),  # subset of ("death", "exc")
            "fault_rate": (0, 1),  # (num, den) per task
            "max_faults": 1,
            "inner_excs": ("oserror", "memory"),
            "stall": True,
        }
        self.pool_faults_fired = 0
        self.interleavings = []  # per pool: (assignment, completion order)
        self.notes = []
        self.worker_init = []  # callables run in every freshly forked worker
        self.armed_inner = None  # (in a worker) in-task fault waiting for a seam

    # -- logging (never draws from the tape, never reads a clock) -----------
    def event(self, kind, *data):
        self.events.append((round(self.clock.now, 6), kind) + tuple(data))

    def fault(self, kind):
        self.faults[kind] += 1

    def probe(self, name, n=1):
        self.probes[name] += n

    def note(self, msg):
        self.notes.append(str(msg))

    def schedule_digest(self):
        h = hashlib.blake2b(digest_size=8)
        h.update(self.tape.digest().encode())
        for ev in self.events:
            h.update(repr(ev).encode())
        return h.hexdigest()

    def sim_seconds(self):
        return self.clock.now

    def close(self):
        for p in list(self.pools):
            try:
                p._kill_all()
            except Exception:
                pass


def install(ctx):
    global CUR
    CUR = ctx
    return ctx


def current():
    if CUR is None:
        raise RuntimeError("no simulation context installed")
    return CUR
