"""C03 -- segments tile each chromosome and account for every surviving bin,
for every method, filter combination, worker count and pool schedule.

One simulated run = one generated bin table + configuration; the serial call,
then the same call under SimPool with a drawn schedule (and, in the fault
population, worker death / in-task exceptions), each checked against the
tiling / accounting oracle T1-T6 (DESIGN.md 3.1).
"""
import hashlib
import os
import pickle
import shutil

RULE = (
    "each run draws (from one tape) a bin table (1-6 chromosomes incl. X/Y, 1-400 bins each, optional "
    "planted centromere gap, null-coverage bins at arm edges and inside, zero / tiny weights, outliers, "
    "duplicate / comma-list / ignored gene names, with or without depth column), a method, skip_low, "
    "skip_outliers, min_weight, haar threshold, PAR genome, processes in 1..16 and a SimPool schedule "
    "(+ pool faults in the fault population); a quarter of the min_weight=0 runs also go through "
    "cnvkit.py segment on a written .cnr; half of the multi-chromosome per-arm runs segment one chromosome "
    "alone in a pristine process; a quarter segment a second sample over the same bins. Non-trivial = at least one bin was filtered or a centromere split was taken, AND "
    "(the per-arm pool ran >1 task, or the method is an hmm variant, or a fault fired). Distinct = "
    "distinct (method, filter config, processes class, table digest, pool interleaving hashes, fault "
    "kinds fired) tuples, counted with a set."
)
COMPONENTS = {
    "real": ["cnvlib.segmentation (do_segmentation, _do_segmentation, transfer_fields, haar, none, hmm)",
             "cnvlib.segfilters / segmetrics / smoothing / cnary, skgenome.gary / intersect",
             "pomegranate HMM fit + Viterbi", "pandas / numpy / scipy",
             "forked worker processes (pickling, inherited and carried-over process state)"],
    "simulated": ["ProcessPoolExecutor scheduling: worker choice, durations, completion order, "
                  "parent/worker interleaving, worker death, exceptions around and inside an arm's task "
                  "(SimPool)",
                  "RNG state of workers at start (scramble)"],
    "stubbed_or_absent": ["cbs / flasso (no R in the sandbox): never run"],
}
ASSUMPTIONS = [
    "surviving bins are observed at the entry of segment_haar / segment_none / segment_hmm and constrained by "
    "filter rules (zero / below-minimum weight and, with skip_low, null coverage never survive; without the "
    "outlier filter everything else does) and by T7 (hmm* and 'none' segment the same bins of an unsplit "
    "chromosome); the outlier filter itself is not re-implemented",
    "input tables are sorted, non-overlapping bins (any row index); arm structure is the one planted by the "
    "generator (one unambiguous centromere gap per split chromosome, optionally a smaller second gap in an arm)",
    "SimPool models CPython 3.12 ProcessPoolExecutor (fork start method)",
    "cbs and flasso are not exercised (Rscript absent)",
    "sampled, not exhaustive: a clean batch is evidence, not proof",
]

METHODS = ["haar", "none", "hmm", "hmm-tumor", "hmm-germline"]
IGNORE = ("-", ".", "CGH", "Antitarget", "Background")
_state = {}


HMM_MIN_AUTOSOMAL = 8


class Skip(Exception):
    pass


def _autosomal_survivors(surv):
    import re
    chroms = {c for c, _s, _e in surv}
    auto = {c for c in chroms if re.match(r"(chr)?\d+$", c)}
    if not auto:
        auto = chroms  # GenomicArray.autosomes() falls back to everything
    return sum(1 for c, _s, _e in surv if c in auto)


class Violation(Exception):
    def __init__(self, clause, key, message):
        super().__init__(message)
        self.clause, self.key, self.message = clause, key, message


# -- observation of filtered_cn (runs in parent and in forked workers) -----------

def _obs_dir():
    return _state.get("obs_dir")


def _record(cnarr):
    d = _obs_dir()
    if d is None:
        return
    _state["obs_n"] = _state.get("obs_n", 0) + 1
    path = os.path.join(d, f"obs-{os.getpid()}-{_state['obs_n']}.pkl")
    with open(path, "wb") as fh:
        pickle.dump((cnarr.data["chromosome"].astype(str).tolist(),
                     cnarr.data["start"].tolist(), cnarr.data["end"].tolist()), fh)


def _wrap(orig):
    def wrapper(cnarr, *a, **k):
        from sim.simpool import maybe_inner_fault
        _record(cnarr)
        maybe_inner_fault("segment")  # armed per task by SimPool: a failure inside the arm's task
        return orig(cnarr, *a, **k)
    wrapper.__wrapped__ = orig
    return wrapper


def warm():
    import cnvlib.segmentation as seg
    from cnvlib.segmentation import haar, hmm, none

    _state["seg"] = seg
    for mod, name in ((haar, "segment_haar"), (none, "segment_none"), (hmm, "segment_hmm")):
        fn = getattr(mod, name)
        if not hasattr(fn, "__wrapped__"):
            setattr(mod, name, _wrap(fn))


def _collect_obs():
    d = _obs_dir()
    surv = set()
    n_calls = 0
    for f in sorted(os.listdir(d)):
        if f.startswith("obs-"):
            p = os.path.join(d, f)
            with open(p, "rb") as fh:
                c, s, e = pickle.load(fh)
            os.unlink(p)
            n_calls += 1
            surv.update(zip(c, s, e))
    return surv, n_calls


# -- the oracle ---------------------------------------------------------------

def check_filters(table, survivors, method, cfg):
    """T2 (which bins may survive): a zero-weight bin (or one below min_weight) never survives,
    a null-coverage bin never survives skip_low, and without the outlier filter every other
    bin does.  The outlier filter itself is not modelled (see T7 in run_one)."""
    import numpy as np

    cols = table["columns"]
    w = np.array(cols["weight"], dtype=float)
    l2 = np.array(cols["log2"], dtype=float)
    must_drop = (w < cfg["min_weight"]) if cfg["min_weight"] else (w == 0)
    if cfg["skip_low"]:
        must_drop = must_drop | (l2 < -15.0)
        if "depth" in cols:
            must_drop = must_drop | (np.array(cols["depth"], dtype=float) == 0)
    alive = np.array([(c, s, e) in survivors for c, s, e in
                      zip(cols["chromosome"], cols["start"], cols["end"])], dtype=bool)
    bad = np.flatnonzero(alive & must_drop)
    if len(bad):
        i = int(bad[0])
        raise Violation("T2", f"C03/T2/{method}/filter_kept",
                        f"{cols['chromosome'][i]}:{cols['start'][i]}-{cols['end'][i]} (weight {w[i]!r}, log2 "
                        f"{l2[i]!r}) was segmented although skip_low={cfg['skip_low']}, min_weight="
                        f"{cfg['min_weight']} must drop it ({len(bad)} such bins)")
    if not cfg["skip_outliers"]:
        bad = np.flatnonzero(~alive & ~must_drop)
        if len(bad):
            i = int(bad[0])
            raise Violation("T2", f"C03/T2/{method}/filter_lost",
                            f"{cols['chromosome'][i]}:{cols['start'][i]}-{cols['end'][i]} (weight {w[i]!r}, "
                            f"log2 {l2[i]!r}) was dropped although no filter applies to it and the outlier "
                            f"filter is off ({len(bad)} such bins)")


def check_table(segs, table, survivors, method, ctx=None, rtol=1e-9):
    """T1-T5 on one result.  `segs` is a DataFrame; raises Violation.  `rtol` is
    1e-9 for in-memory results and 2e-5 for tables read back from a .cns file
    (the writer keeps 6 significant digits)."""
    import numpy as np

    def _close(a, b):
        return a == b or abs(a - b) <= rtol * max(1.0, abs(a), abs(b))

    cols = table["columns"]
    need = ["chromosome", "start", "end", "gene", "log2", "probes", "weight", "depth"]
    missing = [c for c in need if c not in segs.columns]
    if not len(segs) and not survivors:
        if ctx is not None:
            ctx.probe("table.no_survivor_at_all")
        return
    if missing:
        raise Violation("T1", f"C03/T1/{method}/columns", f"segment table lacks columns {missing}")
    bchrom = np.array(cols["chromosome"], dtype=object)
    bstart = np.array(cols["start"], dtype=np.int64)
    bend = np.array(cols["end"], dtype=np.int64)
    bw = np.array(cols["weight"], dtype=float)
    bl2 = np.array(cols["log2"], dtype=float)
    bdp = np.array(cols["depth"], dtype=float) if "depth" in cols else np.exp2(bl2)
    bgene = cols["gene"]
    alive = np.array([(c, s, e) in survivors for c, s, e in zip(bchrom, bstart, bend)], dtype=bool)
    extra = len(survivors) - int(alive.sum())
    if extra:
        raise Violation("T2", f"C03/T2/{method}/foreign",
                        f"{extra} surviving bins are not bins of the input table")
    schrom = segs["chromosome"].astype(str).to_numpy(dtype=object)
    sstart = segs["start"].to_numpy()
    send = segs["end"].to_numpy()
    sprobes = segs["probes"].to_numpy()
    chrom_order = list(dict.fromkeys(cols["chromosome"]))
    total_probes = 0
    for chrom in chrom_order:
        bi = np.flatnonzero(bchrom == chrom)
        si = np.flatnonzero(schrom == chrom)
        lo, hi = bstart[bi].min(), bend[bi].max()
        n_alive = int(alive[bi].sum())
        if n_alive and not len(si):
            raise Violation("T2", f"C03/T2/{method}/no_segment",
                            f"{chrom}: {n_alive} surviving bins but no segment")
        # T1
        for k, j in enumerate(si):
            if not sstart[j] < send[j]:
                raise Violation("T1", f"C03/T1/{method}/empty",
                                f"{chrom}: segment {sstart[j]}-{send[j]} has no positive length")
            if sstart[j] < lo or send[j] > hi:
                raise Violation("T1", f"C03/T1/{method}/span",
                                f"{chrom}: segment {sstart[j]}-{send[j]} outside bin span {lo}-{hi}")
            if k and sstart[j] < send[si[k - 1]]:
                kind = "unsorted" if sstart[j] < sstart[si[k - 1]] else "overlap"
                raise Violation("T1", f"C03/T1/{method}/{kind}",
                                f"{chrom}: segment {sstart[j]}-{send[j]} follows "
                                f"{sstart[si[k-1]]}-{send[si[k-1]]} ({kind})")
        # T2
        covered = np.zeros(len(bi), dtype=int)
        for j in si:
            inside = (bstart[bi] >= sstart[j]) & (bend[bi] <= send[j])
            n_in = int((inside & alive[bi]).sum())
            covered += inside.astype(int)
            if int(round(float(sprobes[j]))) != n_in or float(sprobes[j]) != round(float(sprobes[j])):
                raise Violation("T2", f"C03/T2/{method}/probes",
                                f"{chrom}:{sstart[j]}-{send[j]} probes={sprobes[j]} but contains "
                                f"{n_in} surviving bins")
            total_probes += n_in
            # T4
            span = (bend[bi] > sstart[j]) & (bstart[bi] < send[j])
            idx = bi[span]
            wsum = float(bw[idx].sum())
            got_w = float(segs["weight"].iloc[j])
            if not _close(got_w, wsum):
                raise Violation("T4", f"C03/T4/{method}/weight",
                                f"{chrom}:{sstart[j]}-{send[j]} weight={got_w!r}, bins sum to {wsum!r}")
            exp_dp = float(np.average(bdp[idx], weights=bw[idx])) if wsum > 0 else 0.0
            got_dp = float(segs["depth"].iloc[j])
            if not _close(got_dp, exp_dp):
                raise Violation("T4", f"C03/T4/{method}/depth",
                                f"{chrom}:{sstart[j]}-{send[j]} depth={got_dp!r}, expected {exp_dp!r}")
            names = list(dict.fromkeys(bgene[i] for i in idx))
            names = [g for g in names if g not in IGNORE]
            exp_gene = ",".join(names) if names else "-"
            got_gene = str(segs["gene"].iloc[j])
            if got_gene != exp_gene:
                raise Violation("T4", f"C03/T4/{method}/gene",
                                f"{chrom}:{sstart[j]}-{send[j]} gene={got_gene[:80]!r}, expected {exp_gene[:80]!r}")
            # T5
            if method == "none" or method.startswith("hmm"):
                sidx = bi[inside & alive[bi]]
                if len(sidx):
                    ws = bw[sidx]
                    exp_l2 = float(np.average(bl2[sidx], weights=ws)) if ws.sum() > 0 else float(bl2[sidx].mean())
                    got_l2 = float(segs["log2"].iloc[j])
                    if not _close(got_l2, exp_l2):
                        raise Violation("T5", f"C03/T5/{method}/log2",
                                        f"{chrom}:{sstart[j]}-{send[j]} log2={got_l2!r}, expected {exp_l2!r}")
            if ctx is not None and int(span.sum()) > n_in:
                ctx.probe("segment.spans_filtered_bin")
        bad = np.flatnonzero(alive[bi] & (covered != 1))
        if len(bad):
            b = bi[bad[0]]
            raise Violation("T2", f"C03/T2/{method}/coverage",
                            f"{chrom}: surviving bin {bstart[b]}-{bend[b]} lies in {covered[bad[0]]} "
                            f"segments ({len(bad)} such bins)")
    foreign = [c for c in dict.fromkeys(schrom.tolist()) if c not in chrom_order]
    if foreign:
        raise Violation("T1", f"C03/T1/{method}/span", f"segments on unknown chromosomes {foreign}")
    if total_probes != len(survivors):
        raise Violation("T2", f"C03/T2/{method}/sum",
                        f"probes sum to {total_probes}, {len(survivors)} bins survived")
    # T3: arm endpoints (methods run per arm)
    if method in ("none", "haar", "cbs"):
        for (chrom, i0, i1) in table["arms"]:
            if not alive[i0:i1 + 1].any():
                if ctx is not None:
                    ctx.probe("arm.no_survivor")
                continue
            a_lo, a_hi = bstart[i0], bend[i1]
            sj = [j for j in np.flatnonzero(schrom == chrom)
                  if sstart[j] < a_hi and send[j] > a_lo]
            if not sj:
                raise Violation("T2", f"C03/T2/{method}/no_segment",
                                f"{chrom} arm {a_lo}-{a_hi} has surviving bins but no segment")
            if ctx is not None and (not alive[i0] or not alive[i1]):
                ctx.probe("arm.edge_bin_filtered")
            if sstart[sj[0]] != a_lo:
                raise Violation("T3", f"C03/T3/{method}/start",
                                f"{chrom} arm {a_lo}-{a_hi}: first segment starts at {sstart[sj[0]]}, "
                                f"first input bin at {a_lo}")
            if send[sj[-1]] != a_hi:
                raise Violation("T3", f"C03/T3/{method}/end",
                                f"{chrom} arm {a_lo}-{a_hi}: last segment ends at {send[sj[-1]]}, "
                                f"last input bin ends at {a_hi}")


def _close(a, b):
    return a == b or abs(a - b) <= 1e-9 * max(1.0, abs(a), abs(b))


def _as_float_frame(df):
    """Numeric columns as float (an all-integer `probes` column is int in one table and float in
    another that was concatenated with an empty arm: not a matter of the property)."""
    import pandas as pd
    df = df.reset_index(drop=True).copy()
    for c in df.columns:
        if pd.api.types.is_numeric_dtype(df[c].dtype) and not pd.api.types.is_bool_dtype(df[c].dtype):
            df[c] = df[c].astype(float)
    return df


def _ref_segment(req):
    """Runs in a pristine grandchild of the reference server (forked before this run segmented
    anything): one chromosome segmented on its own, serially."""
    from sim import digest as D

    snap, method, kw = req
    _state["obs_dir"] = None  # observations of this side computation must not reach the run
    cn = pickle.loads(snap)
    out = _state["seg"].do_segmentation(cn, method, processes=1, **kw)
    return D.canon(_as_float_frame(out.data))


# -- one simulated run --------------------------------------------------------

def run_one(tape, tier, opts):
    import tempfile

    from sim import ctx as C
    from sim import digest as D
    from sim import gen_bins as G

    if "seg" not in _state:
        warm()
    seg = _state["seg"]
    ctx = C.install(C.SimContext(tape, "C03"))
    from sim import refserver
    ref = refserver.RefServer(_ref_segment)  # forked before anything is segmented in this run
    population = "fault" if tape.chance(3, 10, "population") else "faultfree"
    if opts.get("population"):
        population = opts["population"]
    method = tape.weighted([("haar", 4), ("none", 3), ("hmm", 1), ("hmm-tumor", 1),
                            ("hmm-germline", 1)], "seg.method")
    if opts.get("method"):
        method = opts["method"]
    skip_low = tape.chance(1, 2, "seg.skip_low")
    # the default factor 10 hardly ever flags a bin; 3 and 2 do
    skip_outliers = tape.weighted([(10, 2), (0, 2), (3, 3), (2, 1)], "seg.skip_outliers")
    min_weight = tape.choice([0, 0.4], "seg.min_weight")
    processes = tape.weighted(
        [(2, 3), (3, 2), (16, 2), (tape.between(4, 15, "seg.p_mid"), 2), (1, 1)], "seg.processes")
    table = G.gen_cnr(tape, tier)
    # haar's significance threshold (None = the default 0.0001); PAR-aware autosome set for hmm*
    threshold = tape.weighted([(None, 3), (0.01, 1), (1e-8, 1), (0.3, 1)], "seg.threshold") \
        if method == "haar" else None
    parx = tape.weighted([(None, 3), ("grch38", 1), ("grch37", 1)], "seg.parx")
    use_cli = tape.chance(1, 4, "seg.cli") and min_weight == 0
    ctx.pool_cfg["scramble_workers"] = tape.chance(1, 2, "pool.scramble")
    fault_kind = None
    if population == "fault":
        fault_kind = tape.choice(["death", "exc", "inner", "death+exc", "inner+death"], "fault.family")
    is_hmm = method.startswith("hmm")

    rundir = tempfile.mkdtemp(prefix="c03-", dir=os.environ.get("VERIF_SCRATCH"))
    tempfile.tempdir = rundir
    _state["obs_dir"] = rundir
    ctx.worker_init.append(_worker_init)
    plan = {"population": population, "method": method, "skip_low": skip_low,
            "skip_outliers": skip_outliers, "min_weight": min_weight, "processes": processes,
            "threshold": threshold, "diploid_parx_genome": parx, "cli": use_cli,
            "fault": fault_kind, "table": table["plan"], "n_bins": table["n"],
            "n_arms": len(table["arms"])}
    res = {"status": "ok", "population": population, "plan": plan}
    digests = []
    n_filtered = 0
    try:
        cnarr = G.make_cna(table)
        # row labels of the input frame: default 0..n-1, or what a pre-filtered / re-indexed
        # table carries (gapped, offset, descending)
        index_style = tape.weighted([("default", 5), ("gapped", 1), ("offset", 1), ("descending", 1)],
                                    "cnr.index")
        plan["index"] = index_style
        if index_style != "default":
            import numpy as np
            import pandas as pd
            n_rows = len(cnarr.data)
            labels = {"gapped": np.arange(n_rows) * 3 + 7, "offset": np.arange(n_rows) + 1000,
                      "descending": np.arange(n_rows)[::-1]}[index_style]
            cnarr.data.index = pd.Index(labels)
            ctx.probe("input.index_" + index_style)
        kw = dict(skip_low=skip_low, skip_outliers=skip_outliers, min_weight=min_weight,
                  threshold=threshold, diploid_parx_genome=parx)

        def call(procs):
            try:
                out = seg.do_segmentation(cnarr, method, processes=procs, **kw)
            except C.SimCrash:
                raise
            except BaseException as exc:  # noqa: BLE001
                return None, exc
            return out, None

        use_pool = processes > 1 and not is_hmm
        # Which call comes first matters for state that leaks between calls: with the
        # pool first, its workers are forked from a parent that has not segmented
        # anything yet (each keeps only the state of the arms it ran itself), while the
        # serial call runs every arm in one process.
        pool_first = use_pool and tape.chance(1, 2, "seg.pool_first")
        plan["pool_first"] = pool_first

        def serial_call():
            out, exc = call(1)
            surv, _n = _collect_obs()
            if exc is not None:
                feat = _raise_feature(table, method, skip_low, min_weight)
                n_auto = _autosomal_survivors(surv)
                if is_hmm and n_auto < HMM_MIN_AUTOSOMAL and not isinstance(exc, AssertionError):
                    # an HMM cannot be fitted to a handful of observations: precondition
                    # of the method, not a tiling violation
                    ctx.probe("hmm.degenerate_input_skipped")
                    raise Skip()
                raise Violation("T2", f"C03/T2/{method}/raises/{type(exc).__name__}/{feat}",
                                f"do_segmentation({method}, skip_low={skip_low}, skip_outliers={skip_outliers}, "
                                f"min_weight={min_weight}) raised {type(exc).__name__}: "
                                f"{D.mask_text(exc)[:300]} ({n_auto} autosomal bins survive)")
            ctx.probe("method." + method + ".serial")
            return out, surv

        def pool_call():
            if population == "fault":
                ctx.pool_cfg["fault_kinds"] = tuple(fault_kind.split("+"))
                ctx.pool_cfg["fault_rate"] = (1, 3)
                ctx.pool_cfg["max_faults"] = 1
                ctx.pool_faults_fired = 0
            base_f = dict(ctx.faults)
            out, exc = call(processes)
            ctx.pool_cfg["fault_kinds"] = ()
            fired = sorted(k for k in ctx.faults
                           if k in ("pool.death", "pool.exc", "pool.inner")
                           and ctx.faults[k] > base_f.get(k, 0))
            surv2, _n = _collect_obs()
            ctx.probe("method." + method + ".pool")
            return out, exc, fired, surv2

        pooled = None
        if pool_first:
            pooled = pool_call()
            ctx.probe("order.pool_first")
        out, surv = serial_call()
        n_filtered = table["n"] - len(surv)
        if n_filtered:
            ctx.probe("bins.filtered")
        if len(table["arms"]) > len(table["plan"]["chroms"]):
            ctx.probe("centromere.split")
        cfg = {"skip_low": skip_low, "skip_outliers": skip_outliers, "min_weight": min_weight}
        check_filters(table, surv, method, cfg)
        check_table(out.data, table, surv, method, ctx)
        if is_hmm and skip_outliers:
            # T7: what the outlier filter drops on an unsplit chromosome does not depend on the
            # method (hmm* filter the whole table in one call, the per-arm methods arm by arm)
            kw_none = dict(kw)
            kw_none["threshold"] = None
            try:
                seg.do_segmentation(cnarr, "none", processes=1, **kw_none)
            except C.SimCrash:
                raise
            except BaseException:  # noqa: BLE001
                _collect_obs()
            else:
                surv_none, _n = _collect_obs()
                per = {}
                for (c, _i0, _i1) in table["arms"]:
                    per[c] = per.get(c, 0) + 1
                for c, n_arms in per.items():
                    if n_arms != 1:
                        continue
                    a = {b for b in surv if b[0] == c}
                    b_ = {b for b in surv_none if b[0] == c}
                    if a != b_:
                        x = sorted(a ^ b_)[0]
                        raise Violation("T2", f"C03/T2/{method}/filter_method_dependent",
                                        f"{c}: with skip_outliers={skip_outliers} the bins segmented by {method} "
                                        f"differ from those segmented by 'none' under the same filters "
                                        f"(e.g. {x[1]}-{x[2]} is {'kept' if x in a else 'dropped'} by {method} only)")
                ctx.probe("filters.method_independent_checked")
        serial_c = D.canon(out)
        digests.append(D.digest(serial_c))
        # T6 (chromosome alone): the per-arm methods treat every chromosome on its own, so one
        # chromosome segmented alone in a pristine process must give exactly its rows of the
        # whole-table result -- whatever was segmented before it in this process
        if not is_hmm and len(table["plan"]["chroms"]) > 1 and tape.chance(1, 2, "seg.chrom_alone"):
            names_ = [c["chrom"] for c in table["plan"]["chroms"]]
            cname = names_[tape.draw(len(names_), "seg.chrom_alone_which")]
            sub = cnarr[cnarr.chromosome == cname]
            got = _as_float_frame(out.data[out.data["chromosome"].astype(str) == cname])
            try:
                want = ref.eval((pickle.dumps(sub), method, kw))
            except Exception as exc:  # noqa: BLE001 (the side computation failed: no verdict)
                ctx.note(f"chromosome-alone reference failed: {type(exc).__name__}")
                want = None
            if want is not None and (len(got) or (isinstance(want, tuple) and len(want) > 1 and want[1])):
                d = D.diff(D.canon(got), want)
                if d:
                    raise Violation("T6", f"C03/T6/{method}/chromosome_alone",
                                    f"{method}: chromosome {cname} segmented alone in a pristine process gives "
                                    f"other segments than the same chromosome inside the whole table: {d}")
                ctx.probe("chromosome_alone.checked")
        if use_pool and pooled is None:
            pooled = pool_call()

        # ---- the pooled result against the serial one ---------------------------
        if use_pool:
            out, exc, fired, surv2 = pooled
            if exc is not None:
                if not fired:
                    raise Violation("T6", f"C03/T6/{method}/raises",
                                    f"{method} with processes={processes} raised {type(exc).__name__}: "
                                    f"{D.mask_text(exc)[:300]} (serial call succeeds)")
                ctx.probe("fault.call_raised")
            else:
                d = D.diff(D.canon(out), serial_c)
                if d:
                    clause = "F1" if fired else "T6"
                    raise Violation(clause, f"C03/{clause}/{method}",
                                    f"{method} processes={processes}"
                                    f"{' after ' + str(fired) if fired else ''}"
                                    f"{' (pool call made first)' if pool_first else ''}: table differs "
                                    f"from the serial table at {d}")
                if not fired:
                    if surv2 != surv:
                        raise Violation("T6", f"C03/T6/{method}/survivors",
                                        "set of surviving bins differs between serial and pool runs")
                    check_table(out.data, table, surv2, method, None)
                digests.append(D.digest(D.canon(out)))
            if fired:
                out, exc = call(processes)
                _collect_obs()
                if exc is not None:
                    raise Violation("F1", f"C03/F1/{method}/retry",
                                    f"fault-free retry after {fired} raised {type(exc).__name__}: "
                                    f"{D.mask_text(exc)[:300]}")
                d = D.diff(D.canon(out), serial_c)
                if d:
                    raise Violation("F1", f"C03/F1/{method}/retry",
                                    f"fault-free retry after {fired} differs from serial at {d}")
                ctx.probe("fault.retry_ok")
        elif is_hmm:
            ctx.probe("method." + method + ".whole_genome")
            if processes > 1 and tape.chance(1, 2, "seg.hmm_procs"):
                # hmm* ignore the worker count; the table must not change with it
                out2, exc = call(processes)
                surv2, _n = _collect_obs()
                if exc is not None:
                    raise Violation("T6", f"C03/T6/{method}/raises",
                                    f"{method} with processes={processes} raised {type(exc).__name__}: "
                                    f"{D.mask_text(exc)[:300]} (processes=1 succeeds)")
                d = D.diff(D.canon(out2), serial_c)
                if d:
                    raise Violation("T6", f"C03/T6/{method}",
                                    f"{method} processes={processes}: table differs from the "
                                    f"processes=1 table at {d}")
                ctx.probe("method." + method + ".procs_gt_1")

        # ---- a second sample over the same bins, segmented next in the same process ----------
        if tape.chance(1, 4, "seg.second_sample"):
            import numpy as np
            rng2 = np.random.default_rng(tape.subseed("seg.second_sample.bulk"))
            table_b = dict(table)
            cols_b = {k: list(v) for k, v in table["columns"].items()}
            nb = table["n"]
            cols_b["weight"] = np.where(np.array(cols_b["weight"]) > 0,
                                        rng2.uniform(0.05, 1.0, size=nb), 0.0).tolist()
            l2b = np.array(cols_b["log2"], dtype=float)
            keep = l2b > -15
            l2b[keep] = l2b[keep][::-1] + rng2.normal(0, 0.05, size=int(keep.sum()))
            cols_b["log2"] = l2b.tolist()
            if "depth" in cols_b:
                cols_b["depth"] = np.where(keep, np.exp2(l2b) * 100.0, 0.0).tolist()
            table_b["columns"] = cols_b
            cn_b = G.make_cna(table_b, "verif_b")
            if index_style != "default":
                cn_b.data.index = cnarr.data.index
            try:
                out_b = seg.do_segmentation(cn_b, method, processes=1 if tape.chance(1, 2, "seg.second_serial")
                                            else processes, **kw)
            except C.SimCrash:
                raise
            except BaseException as exc:  # noqa: BLE001
                surv_b, _n = _collect_obs()
                if not (is_hmm and _autosomal_survivors(surv_b) < HMM_MIN_AUTOSOMAL
                        and not isinstance(exc, AssertionError)):
                    raise Violation("T2", f"C03/T2/{method}/second_sample/raises",
                                    f"a second sample over the same bins: {type(exc).__name__}: "
                                    f"{D.mask_text(exc)[:200]}")
            else:
                surv_b, _n = _collect_obs()
                try:
                    check_filters(table_b, surv_b, method, cfg)
                    check_table(out_b.data, table_b, surv_b, method, None)
                except Violation as v:
                    raise Violation(v.clause, v.key + "/second_sample",
                                    "a second sample over the same bins, segmented after the first in the "
                                    "same process: " + v.message)
                ctx.probe("second_sample.checked")

        # ---- the command-line path: .cnr file -> cnvkit.py segment -> .cns file -----
        if use_cli:
            _cli_path(ctx, tape, rundir, cnarr, table, method, skip_low, skip_outliers,
                      threshold, parx, processes, is_hmm,
                      fault_kind if (population == "fault" and use_pool) else None)
    except Skip:
        res["skipped"] = True
    except Violation as v:
        res.update(status="violation", clause=v.clause, key=v.key, message=v.message)
    finally:
        ref.close()
        ctx.close()
        _state["obs_dir"] = None
        tempfile.tempdir = None
        shutil.rmtree(rundir, ignore_errors=True)

    inter = [hashlib.blake2b(repr(s).encode(), digest_size=6).hexdigest()
             for s in ctx.interleavings if len(s[1]) > 1]
    multi = bool(inter)
    structure = bool(n_filtered) or len(table["arms"]) > len(table["plan"]["chroms"])
    nontrivial = structure and (multi or is_hmm or bool(ctx.faults.get("pool.death") or ctx.faults.get("pool.exc")
                                                          or ctx.faults.get("pool.inner")))
    cfg_class = (f"{method}|low={int(skip_low)}|out={skip_outliers}|minw={min_weight}|"
                 f"p={_pclass(processes)}|{population}:{fault_kind}")
    tsig = hashlib.blake2b(repr((table["plan"], table["columns"]["start"][:16])).encode(),
                           digest_size=6).hexdigest()
    res.update({
        "schedule_digest": ctx.schedule_digest(),
        "result_digest": hashlib.blake2b("|".join(digests).encode(), digest_size=8).hexdigest(),
        "faults": dict(ctx.faults), "probes": dict(ctx.probes),
        "sim_seconds": ctx.sim_seconds(), "interleavings": inter,
        "nontrivial": nontrivial, "config_class": cfg_class,
        "case_sig": hashlib.blake2b(repr((cfg_class, tsig, inter, sorted(ctx.faults))).encode(),
                                    digest_size=8).hexdigest(),
        "notes": ctx.notes[:5],
    })
    return res


def _cli_path(ctx, tape, rundir, cnarr, table, method, skip_low, skip_outliers, threshold, parx,
              processes, is_hmm, fault_kind=None):
    """`cnvkit.py segment` on a written .cnr: the .cns it writes must satisfy T1-T5
    against the table as read back from that file (6 significant digits)."""
    import cnvlib
    from cnvlib import commands
    from skgenome import tabio
    from sim import ctx as C
    from sim import digest as D

    cnr_path = os.path.join(rundir, "sample.cnr")
    out_path = os.path.join(rundir, "sample.cli.cns")
    tabio.write(cnarr, cnr_path)
    back = cnvlib.read(cnr_path)
    cols = {c: back.data[c].tolist() for c in back.data.columns}
    cols["chromosome"] = [str(c) for c in cols["chromosome"]]
    cols["gene"] = [str(g) for g in cols["gene"]]
    orig = table["columns"]
    if sorted(zip(cols["chromosome"], cols["start"], cols["end"])) != sorted(
            zip(orig["chromosome"], orig["start"], orig["end"])):
        raise Violation("T1", f"C03/T1/{method}/cli/input_roundtrip",
                        "the .cnr written from the generated table reads back with other bins")
    # reading sorts the chromosomes into natural order: re-locate the planted arms
    where = {(c, s_): i for i, (c, s_) in enumerate(zip(cols["chromosome"], cols["start"]))}
    table2 = dict(table)
    table2["columns"] = cols
    table2["arms"] = [(c, where[(c, orig["start"][i0])], where[(c, orig["start"][i0])] + (i1 - i0))
                      for (c, i0, i1) in table["arms"]]
    argv = ["segment", cnr_path, "-m", method, "-o", out_path, "-p", str(processes),
            "--drop-outliers", str(skip_outliers)]
    if skip_low:
        argv.append("--drop-low-coverage")
    if threshold is not None:
        argv += ["-t", repr(threshold)]
    if parx is not None:
        argv += ["--diploid-parx-genome", parx]
    try:
        cargs = commands.parse_args(argv)
        cargs.func(cargs)
    except C.SimCrash:
        raise
    except BaseException as exc:  # noqa: BLE001
        surv, _n = _collect_obs()
        if is_hmm and _autosomal_survivors(surv) < HMM_MIN_AUTOSOMAL and not isinstance(
                exc, (AssertionError, SystemExit)):
            ctx.probe("hmm.degenerate_input_skipped")
            return
        raise Violation("T2", f"C03/T2/{method}/cli/raises/{type(exc).__name__}",
                        f"cnvkit.py {' '.join(argv[:1] + argv[2:4] + argv[6:])} raised "
                        f"{type(exc).__name__}: {D.mask_text(exc)[:300]} (do_segmentation succeeds)")
    surv, _n = _collect_obs()
    try:
        cns = cnvlib.read(out_path)
    except Exception as exc:  # noqa: BLE001
        raise Violation("T1", f"C03/T1/{method}/cli/unreadable",
                        f"the .cns written by cnvkit.py segment cannot be read: {exc}")
    segs = cns.data.copy()
    segs["chromosome"] = segs["chromosome"].astype(str)
    try:
        check_table(segs, table2, surv, method, None, rtol=2e-5)
    except Violation as v:
        raise Violation(v.clause, v.key + "/cli", f"cnvkit.py segment -m {method} -p {processes} "
                                                   f"(.cns file): {v.message}")
    ctx.probe("cli.segment_file_checked")
    if fault_kind is None:
        return
    # the same command with a fault in its per-arm fan-out: it may fail; a .cns it writes
    # must still satisfy T1-T5 (survivors as observed in the fault-free command above)
    out2 = os.path.join(rundir, "sample.cli.fault.cns")
    argv2 = list(argv)
    argv2[argv2.index("-o") + 1] = out2
    ctx.pool_cfg["fault_kinds"] = tuple(fault_kind.split("+"))
    ctx.pool_cfg["fault_rate"] = (1, 3)
    ctx.pool_cfg["max_faults"] = 1
    ctx.pool_faults_fired = 0
    base_f = dict(ctx.faults)
    err = None
    try:
        cargs = commands.parse_args(argv2)
        cargs.func(cargs)
    except C.SimCrash:
        raise
    except BaseException as exc:  # noqa: BLE001
        err = exc
    finally:
        ctx.pool_cfg["fault_kinds"] = ()
    _collect_obs()
    fired = sorted(k for k in ctx.faults if k in ("pool.death", "pool.exc", "pool.inner")
                   and ctx.faults[k] > base_f.get(k, 0))
    if err is not None:
        if not fired:
            raise Violation("T6", f"C03/T6/{method}/cli/raises",
                            f"cnvkit.py segment -m {method} -p {processes} raised {type(err).__name__}: "
                            f"{D.mask_text(err)[:300]} on its second run (no fault fired)")
        ctx.probe("cli.fault_call_raised")
        return
    try:
        segs2 = cnvlib.read(out2).data.copy()
        segs2["chromosome"] = segs2["chromosome"].astype(str)
        check_table(segs2, table2, surv, method, None, rtol=2e-5)
    except Violation as v:
        clause = "F1" if fired else v.clause
        raise Violation(clause, f"C03/{clause}/{method}/cli",
                        f"cnvkit.py segment -m {method} -p {processes}"
                        f"{' after ' + str(fired) if fired else ''} wrote a .cns that breaks the property: "
                        f"{v.message}")
    except Exception as exc:  # noqa: BLE001
        raise Violation("F1", f"C03/F1/{method}/cli/unreadable",
                        f"cnvkit.py segment after {fired} left an unreadable .cns: {exc}")
    ctx.probe("cli.fault_survived_correct_file" if fired else "cli.second_run_checked")


def _raise_feature(table, method, skip_low, min_weight):
    """Distinguishing input feature of a crash (for finding keys)."""
    import numpy as np
    cols = table["columns"]
    chroms = list(dict.fromkeys(cols["chromosome"]))
    first = chroms[0]
    idx = [i for i, c in enumerate(cols["chromosome"]) if c == first]
    w = np.array(cols["weight"])[idx]
    l2 = np.array(cols["log2"])[idx]
    dead = (w == 0) | (w < min_weight if min_weight else False)
    if skip_low:
        dead = dead | (l2 < -15)
    if dead.all():
        return "first_chrom_all_filtered"
    if table["n"] <= 3:
        return "tiny_table"
    return "other"


def _pclass(p):
    return str(p) if p in (1, 2, 3, 16) else "4-15"


def _worker_init(idx, scramble):
    if scramble is not None:
        import random

        import numpy as np
        np.random.seed(scramble % (1 << 32))
        random.seed(scramble)
