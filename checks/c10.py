"""C10 -- results depend only on arguments (not workers, RNG state, history,
hash seed); arguments are left untouched; writers never overwrite.

One simulated run = one generated world of shared argument objects and a
history of 1-4 operations taking their arguments *by reference* from that
world.  After every step:
  R1  the result equals the pristine-process reference for (op, arg snapshots)
  A1  every object of the world equals the snapshot taken when it entered it
  W1  (write steps) no pre-existing file content is lost; one file is added
Extra phases (see extra_phases): W2 exhaustive crash/error points of the
writer; R2 the same tapes under other PYTHONHASHSEEDs.
"""
import hashlib
import os
import pickle
import shutil

RULE = (
    "each run draws (from one tape) a world of mutually consistent pipeline objects (baits with "
    "accession-list labels incl. length ties, access, target/antitarget coverages, reference, .cnr, "
    ".cns, a VariantArray, sibling objects of every kind, shared filter/stat/ignore/threshold sequences, "
    "combine dicts, chrom-size dict) and a history of 1-6 operations (the quantifier's 4 and supersets) from "
    "{target, antitarget, fix, segment(each method; processes in 1,2,3,16 under SimPool), segmetrics, "
    "call(each method, shared filter lists), genemetrics, breaks, bintest, metrics, export bed/vcf/seg/"
    "theta, center_all on a copy, merge/flatten/subtract/intersection/subdivide/resize_ranges, by_arm/"
    "by_gene, shuffle+sort, further CopyNumArray / range-query / VariantArray methods, write}; arguments "
    "are taken by reference from the world (results re-enter it); between steps the global RNGs may be "
    "reseeded/advanced and a step may be repeated; every stochastic step (and a third of the others) is "
    "echoed at once under a re-perturbed RNG state; every history is re-executed under another "
    "PYTHONHASHSEED. "
    "Non-trivial = history has >= 2 steps, or a step ran under a pool with > 1 task, or the RNG was "
    "perturbed before a stochastic step, or a step consumed a derived object. Distinct = distinct "
    "(operation sequence with parameter classes, world digest, pool interleaving hashes) tuples, "
    "counted with a set. W2 phase: every interposed file-system call of ensure_path + tabio.write is "
    "a crash point (before/after) and an error point; enumerated exhaustively per scenario."
)
COMPONENTS = {
    "real": ["all of cnvlib / skgenome on the operation list (working tree)", "pandas / numpy / scipy / "
             "pomegranate", "forked worker processes for segmentation pools",
             "a real scratch directory on tmpfs for writers", "fresh interpreters under other "
             "PYTHONHASHSEED values (R2)"],
    "simulated": ["ProcessPoolExecutor scheduling (SimPool)", "state of numpy / random global RNGs "
                  "between steps and at worker start", "operation history and argument aliasing",
                  "crash (before/after) and ENOSPC/EIO/EACCES at every interposed FS call of the writer",
                  "torn tail of a file open at crash time"],
    "stubbed_or_absent": ["Rscript methods (cbs, flasso)", "VCF files (the VariantArray is built in "
                          "memory, not parsed)", "power-loss durability (cnvkit never fsyncs; not claimed)"],
}
ASSUMPTIONS = [
    "reference model = the same operation evaluated in a pristine forked process on fresh copies of "
    "the argument snapshots, serial, fixed RNG state",
    "float results compared at rtol 1e-9 (BLAS/alignment noise is not a violation); everything else exact",
    "chromosome-label cache keys chr_x / chr_y in .meta are exempt, as the property states",
    "an operation that raises deterministically is a result like any other",
    "process-crash model for writers (kernel state survives, user-space buffers do not)",
    "sampled histories; only the writer's crash points are enumerated",
]

_state = {}


class Violation(Exception):
    def __init__(self, clause, key, message):
        super().__init__(message)
        self.clause, self.key, self.message = clause, key, message


# ---------------------------------------------------------------------------
# world


class Entry:
    __slots__ = ("id", "kind", "obj", "snap", "_base", "fp", "origin", "name")

    def __init__(self, id_, kind, obj, origin, name):
        from sim import digest as D

        self.id, self.kind, self.obj, self.origin, self.name = id_, kind, obj, origin, name
        self.snap = pickle.dumps(obj, protocol=pickle.HIGHEST_PROTOCOL)
        self._base = None
        self.fp = D.fingerprint(obj)

    @property
    def base(self):
        """Canonical form of the snapshot (built on first use)."""
        if self._base is None:
            from sim import digest as D
            self._base = D.canon(pickle.loads(self.snap))
        return self._base

    def cols(self):
        d = getattr(self.obj, "data", None)
        return set(d.columns) if d is not None else set()


class World:
    def __init__(self):
        self.entries = []

    def add(self, kind, obj, origin, name):
        e = Entry(len(self.entries), kind, obj, origin, name)
        self.entries.append(e)
        return e

    def of(self, *kinds, pred=None):
        return [e for e in self.entries if e.kind in kinds and (pred is None or pred(e))]

    def pick(self, tape, *kinds, pred=None, label="pick"):
        c = self.of(*kinds, pred=pred)
        if not c:
            return None
        # objects produced by earlier steps are three times as likely as initial ones
        pairs = [(e, 1 if e.origin == "initial" else 3) for e in c]
        return tape.weighted(pairs, label)


FILTER_LISTS = [["ampdel"], ["cn"], ["ci", "cn"], ["sem", "ampdel"], ["ci"], ["ci", "sem", "cn"],
                ["ampdel", "cn"], ["cn", "ampdel"], ["ci", "cn", "ampdel"]]
IGNORE_LISTS = [["CGH"], ["-", ".", "CGH"], ("-", ".", "CGH"), []]
LOC_STATS = [["mean"], ["median", "mode"], ["mean", "median", "p_ttest"]]
SPREAD_STATS = [["stdev"], ["mad", "iqr"], ["sem", "bivar", "mse"]]
INTERVAL_STATS = [["ci"], ["pi"], ["ci", "pi"]]


def build_world(tape, tier):
    from sim import gen_world as GW

    objs, info = GW.gen_world(tape, tier)
    W = World()
    for name in ("baits", "access", "tbins", "tcov", "acov", "ref", "cnr", "cns", "cns_stats", "varr"):
        kind = {"tbins": "targets", "cns_stats": "cns"}.get(name, name)
        W.add(kind, objs[name], "initial", name)
    for i, fl in enumerate(FILTER_LISTS):
        W.add("filters", list(fl), "initial", f"filters{i}")
    for i, sl in enumerate(LOC_STATS):
        W.add("loc_stats", list(sl), "initial", f"loc{i}")
    for i, sl in enumerate(SPREAD_STATS):
        W.add("spread_stats", list(sl), "initial", f"spread{i}")
    for i, sl in enumerate(INTERVAL_STATS):
        W.add("interval_stats", list(sl), "initial", f"interval{i}")
    for i, il in enumerate(IGNORE_LISTS):
        W.add("ignore", type(il)(il), "initial", f"ignore{i}")
    from skgenome import combiners
    for i, cd in enumerate([{"gene": combiners.first_of}, {"gene": combiners.last_of, "weight": max},
                            {"strand": combiners.first_of}]):
        W.add("combine", dict(cd), "initial", f"combine{i}")
    W.add("cnr", objs["cnr_clean"], "initial", "cnr_clean")
    for name, kind in (("ref_nomask", "ref"), ("ref_alt", "ref"), ("ref_clean", "ref"), ("tcov_b", "tcov"),
                       ("acov_b", "acov"), ("tcov_null", "tcov"), ("access_unsorted", "access"),
                       ("regions_nested", "access"),
                       ("cnr_mirror", "cnr"), ("cnr_chr1", "cnr"), ("cnr_ontarget", "cnr"),
                       ("cnr_relabelled", "cnr"), ("cns_relabelled", "cns"), ("cns_stats_alt", "cns"),
                       ("varr_empty", "varr"),
                       ("varr_nozyg", "varr"),
                       ("baits_chr1", "baits")):
        W.add(kind, objs[name], "initial", name)
    if tape.chance(1, 2, "w.arms_table"):
        # a ratio table with a planted centromere, equal-sized arms and a second arm-sized gap in
        # one arm (sim.gen_bins): per-arm fan-out and anything keyed on an arm's shape
        from sim import gen_bins as GB
        W.add("cnr", GB.make_cna(GB.gen_cnr(tape, tier, max_chroms=2, size_classes=[(50, 1), (400, 1)],
                                            label="w.arms", force_mirror_arms=True), "S1"),
              "initial", "cnr_arms")
    W.add("sizes", dict(info["chrom_sizes"]), "initial", "chrom_sizes")
    W.add("thresholds", [-1.1, -0.25, 0.2, 0.7], "initial", "thresholds")
    import numpy as _np
    W.add("thresholds", (-1.3, -0.4, 0.3, 0.8, 1.2), "initial", "thresholds_tuple")
    W.add("thresholds", _np.array([-0.25, 0.2, -1.1, 0.7]), "initial", "thresholds_unsorted_array")
    W.add("thresholds", _np.array([-1.0, -0.2, 0.25]), "initial", "thresholds_array")
    # lists of arrays, as `metrics` accepts them (one shared segmentation for several samples)
    W.add("cnr_list", [objs["cnr"], objs["cnr_clean"]], "initial", "cnr_list2")
    W.add("cns_list", [objs["cns"]], "initial", "cns_list1")
    return W, info


# ---------------------------------------------------------------------------
# operations: choose(W, tape, info) -> (entries, params) | None ; run(objs, params, procs)


def _need(cols):
    return lambda e: cols <= e.cols()


def ch_target(W, t, info):
    b = W.pick(t, "baits", "targets", label="target.arg")
    return [b], {"short": t.chance(2, 3, "target.short"), "split": t.chance(2, 3, "target.split"),
                 "avg": t.choice([266.67, 100, 400, 1000], "target.avg")}


def run_target(o, p, procs):
    from cnvlib import target
    return target.do_target(o[0], do_short_names=p["short"], do_split=p["split"], avg_size=p["avg"])


def ch_antitarget(W, t, info):
    tg = W.pick(t, "targets", label="anti.targets")
    acc = W.pick(t, "access", label="anti.access") if t.chance(2, 3, "anti.useaccess") else None
    return [tg] + ([acc] if acc else []), {"avg": t.choice([150000, 30000, 60000], "anti.avg"),
                                            "min": t.choice([None, None, 5000], "anti.min"),
                                            "access": acc is not None}


def run_antitarget(o, p, procs):
    from cnvlib import antitarget
    return antitarget.do_antitarget(o[0], o[1] if p["access"] else None, avg_bin_size=p["avg"],
                                    min_bin_size=p.get("min"))


def ch_fix(W, t, info):
    return [W.pick(t, "tcov", label="fix.t"), W.pick(t, "acov", label="fix.a"), W.pick(t, "ref", label="fix.r")], {
        "gc": t.chance(2, 3, "fix.gc"), "edge": t.chance(2, 3, "fix.edge"), "rmask": t.chance(2, 3, "fix.rmask"),
        "parx": t.choice([None, None, "grch38"], "fix.parx")}


def run_fix(o, p, procs):
    from cnvlib import fix
    return fix.do_fix(o[0], o[1], o[2], p.get("parx"), do_gc=p["gc"], do_edge=p["edge"], do_rmask=p["rmask"])


def ch_segment(W, t, info):
    nofilter = t.chance(1, 4, "seg.nofilter")
    if nofilter:
        c = W.pick(t, "cnr", pred=lambda e: e.name == "cnr_clean", label="seg.cnr")
    else:
        c = W.pick(t, "cnr", label="seg.cnr")
    ents = [c]
    use_vars = t.chance(1, 5, "seg.variants")
    if use_vars:
        ents.append(W.pick(t, "varr", label="seg.varr"))
    return ents, {"variants": use_vars, "method": t.weighted([("haar", 4), ("none", 2), ("hmm", 1), ("hmm-tumor", 1),
                                       ("hmm-germline", 1)], "seg.method"),
                 "skip_low": t.chance(1, 2, "seg.low") and not nofilter,
                 "skip_outliers": 0 if nofilter else t.choice([10, 0, 3], "seg.out"),
                 "min_weight": 0 if nofilter else t.choice([0, 0.3], "seg.minw"),
                 "threshold": t.choice([None, None, 0.01], "seg.thr"),
                 "parx": t.choice([None, None, "grch38"], "seg.parx"),
                 "processes": t.choice([2, 1, 3, 16], "seg.procs")}


def run_segment(o, p, procs):
    from cnvlib import segmentation
    return segmentation.do_segmentation(
        o[0], p["method"], skip_low=p["skip_low"], skip_outliers=p["skip_outliers"],
        min_weight=p["min_weight"], processes=procs if procs else p["processes"],
        variants=o[1] if p.get("variants") else None,
        threshold=p.get("threshold") if p["method"] == "haar" else None,
        diploid_parx_genome=p.get("parx"))


def ch_segmetrics(W, t, info):
    c = W.pick(t, "cnr", label="sm.cnr")
    s = W.pick(t, "cns", label="sm.cns")
    ents = [c, s]
    p = {"alpha": t.choice([0.05, 0.2], "sm.alpha"), "bootstraps": t.choice([30, 100], "sm.boot"),
         "smoothed": t.chance(1, 2, "sm.smoothed"), "skip_low": t.chance(1, 2, "sm.low"),
         "loc": False, "spread": False, "interval": False}
    which = t.between(1, 7, "sm.which")
    if which & 4:
        ents.append(W.pick(t, "interval_stats", label="sm.interval"))
        p["interval"] = True
    if which & 1:
        ents.append(W.pick(t, "loc_stats", label="sm.loc"))
        p["loc"] = True
    if which & 2:
        ents.append(W.pick(t, "spread_stats", label="sm.spread"))
        p["spread"] = True
    return ents, p


def run_segmetrics(o, p, procs):
    from cnvlib import segmetrics
    rest = list(o[2:])
    interval = rest.pop(0) if p["interval"] else ()
    loc = rest.pop(0) if p["loc"] else ()
    spread = rest.pop(0) if p["spread"] else ()
    return segmetrics.do_segmetrics(o[0], o[1], location_stats=loc, spread_stats=spread,
                                    interval_stats=interval, alpha=p["alpha"],
                                    bootstraps=p["bootstraps"], smoothed=p["smoothed"],
                                    skip_low=p["skip_low"])


def ch_call(W, t, info):
    s = W.pick(t, "cns", label="call.cns")
    cols = s.cols()

    def ok(e):
        need = set()
        if "ci" in e.obj or "ci" in pickle.loads(e.snap):
            need |= {"ci_lo", "ci_hi"}
        if "sem" in e.obj or "sem" in pickle.loads(e.snap):
            need |= {"sem"}
        return need <= cols

    ents = [s]
    p = {"method": t.choice(["threshold", "clonal", "none"], "call.method"),
         "ploidy": t.choice([2, 3, 4], "call.ploidy"),
         "purity": t.choice([None, 0.7, 0.35, 1.0], "call.purity"),
         "hapx": t.chance(1, 2, "call.hapx"), "female": info["sample_female"],
         "parx": t.choice([None, None, "grch38"], "call.parx"),
         "filters": False, "thresholds": False, "variants": t.chance(1, 3, "call.variants")}
    if p["variants"]:
        ents.append(W.pick(t, "varr", label="call.varr"))
    if t.chance(2, 3, "call.usefilters"):
        f = W.pick(t, "filters", pred=ok, label="call.filters")
        if f is not None and p["method"] != "none":
            ents.append(f)
            p["filters"] = True
    if t.chance(1, 2, "call.usethr"):
        ents.append(W.pick(t, "thresholds", label="call.thr"))
        p["thresholds"] = True
        if t.chance(3, 4, "call.thr_method"):
            p["method"] = "threshold"  # the only method that reads them
    return ents, p


def run_call(o, p, procs):
    from cnvlib import call
    rest = list(o[1:])
    variants = rest.pop(0) if p.get("variants") else None
    filters = rest.pop(0) if p["filters"] else None
    kw = {}
    if p["thresholds"]:
        kw["thresholds"] = rest.pop(0)
    return call.do_call(o[0], variants, method=p["method"], ploidy=p["ploidy"], purity=p["purity"],
                        is_haploid_x_reference=p["hapx"], is_sample_female=p["female"],
                        diploid_parx_genome=p.get("parx"), filters=filters, **kw)


def ch_genemetrics(W, t, info):
    c = W.pick(t, "cnr", label="gm.cnr")
    ents = [c]
    p = {"segments": t.chance(2, 3, "gm.segs"), "threshold": t.choice([0.2, 0.05, 0.5], "gm.thr"),
         "min_probes": t.choice([3, 1], "gm.minp"), "skip_low": t.chance(1, 2, "gm.low"),
         "hapx": t.chance(1, 2, "gm.hapx"),
         "female": t.choice([None, None, True, False], "gm.female"),
         "parx": t.choice([None, None, "grch38"], "gm.parx")}
    if p["segments"]:
        ents.append(W.pick(t, "cns", label="gm.cns"))
    return ents, p


def run_genemetrics(o, p, procs):
    from cnvlib import reports
    return reports.do_genemetrics(o[0], o[1] if p["segments"] else None, threshold=p["threshold"],
                                  min_probes=p["min_probes"], skip_low=p["skip_low"],
                                  is_haploid_x_reference=p["hapx"], is_sample_female=p["female"],
                                  diploid_parx_genome=p.get("parx"))


def ch_breaks(W, t, info):
    return [W.pick(t, "cnr", label="br.cnr"), W.pick(t, "cns", label="br.cns")], {
        "min_probes": t.choice([1, 2, 4], "br.minp")}


def run_breaks(o, p, procs):
    from cnvlib import reports
    return reports.do_breaks(o[0], o[1], p["min_probes"])


def ch_bintest(W, t, info):
    ents = [W.pick(t, "cnr", label="bt.cnr")]
    p = {"segments": t.chance(2, 3, "bt.segs"), "alpha": t.choice([0.005, 0.2, 0.9], "bt.alpha"),
         "target_only": t.chance(1, 2, "bt.tonly")}
    if p["segments"]:
        ents.append(W.pick(t, "cns", label="bt.cns"))
    return ents, p


def run_bintest(o, p, procs):
    from cnvlib import bintest
    return bintest.do_bintest(o[0], o[1] if p["segments"] else None, alpha=p["alpha"],
                              target_only=p["target_only"])


def ch_metrics(W, t, info):
    if t.chance(1, 3, "mt.shared_lists"):
        # the caller's own list objects: several samples, one shared segmentation
        return [W.pick(t, "cnr_list", label="mt.cnrs"), W.pick(t, "cns_list", label="mt.cnss")], {
            "segments": True, "skip_low": t.chance(1, 2, "mt.low"), "as_list": False, "shared_lists": True}
    ents = [W.pick(t, "cnr", label="mt.cnr")]
    p = {"segments": t.chance(2, 3, "mt.segs"), "skip_low": t.chance(1, 2, "mt.low"),
         "as_list": t.chance(1, 2, "mt.list")}
    if p["segments"]:
        ents.append(W.pick(t, "cns", label="mt.cns"))
    return ents, p


def run_metrics(o, p, procs):
    from cnvlib import metrics
    if p.get("shared_lists"):
        return metrics.do_metrics(o[0], o[1], skip_low=p["skip_low"])
    cn = [o[0]] if p["as_list"] else o[0]
    sg = None
    if p["segments"]:
        sg = [o[1]] if p["as_list"] else o[1]
    return metrics.do_metrics(cn, sg, skip_low=p["skip_low"])


def ch_export_bed(W, t, info):
    return [W.pick(t, "cns", label="xb.cns")], {
        "ploidy": t.choice([2, 3], "xb.ploidy"), "hapx": t.chance(1, 2, "xb.hapx"),
        "female": info["sample_female"], "label": t.choice([None, "lbl"], "xb.label"),
        "show": t.choice(["ploidy", "variant", "all"], "xb.show"),
        "parx": t.choice([None, None, "grch38"], "xb.parx")}


def run_export_bed(o, p, procs):
    from cnvlib import export
    return export.export_bed(o[0], p["ploidy"], p["hapx"], p.get("parx"), p["female"], p["label"], p["show"])


def ch_export_vcf(W, t, info):
    ents = [W.pick(t, "cns", label="xv.cns")]
    p = {"ploidy": t.choice([2, 3], "xv.ploidy"), "hapx": t.chance(1, 2, "xv.hapx"),
         "female": info["sample_female"], "cnr": t.chance(1, 2, "xv.cnr"),
         "parx": t.choice([None, None, "grch38"], "xv.parx"),
         "sample_id": t.choice([None, "SID"], "xv.sid")}
    if p["cnr"]:
        ents.append(W.pick(t, "cnr", label="xv.cnrarg"))
    return ents, p


def run_export_vcf(o, p, procs):
    from cnvlib import export
    header, body = export.export_vcf(o[0], p["ploidy"], p["hapx"], p.get("parx"), p["female"], p["sample_id"],
                                     o[1] if p["cnr"] else None)
    header = "\n".join(ln for ln in header.split("\n") if not ln.startswith("##fileDate"))
    return header, body


def ch_export_theta(W, t, info):
    ents = [W.pick(t, "cns", label="xt.cns")]
    p = {"normal": t.chance(1, 2, "xt.normal")}
    if p["normal"]:
        ents.append(W.pick(t, "cnr", "ref", label="xt.norm"))
    return ents, p


def run_export_theta(o, p, procs):
    from cnvlib import export
    return export.export_theta(o[0], o[1] if p["normal"] else None)


def ch_export_seg(W, t, info):
    files = W.of("cnsfile")
    if not files:
        return None
    k = t.between(1, min(2, len(files)), "xs.n")
    return files[:k], {"chrom_ids": t.chance(1, 2, "xs.ids")}


def run_export_seg(o, p, procs):
    from cnvlib import export
    return export.export_seg(list(o), chrom_ids=p["chrom_ids"])


def ch_center(W, t, info):
    return [W.pick(t, "cnr", "cns", "tcov", label="ce.arg")], {
        "estimator": t.choice(["median", "mean", "mode", "biweight"], "ce.est"),
        "by_chrom": t.chance(1, 2, "ce.bychrom"), "skip_low": t.chance(1, 2, "ce.low")}


def run_center(o, p, procs):
    c = o[0].copy()
    c.center_all(p["estimator"], by_chrom=p["by_chrom"], skip_low=p["skip_low"])
    return c


def _ga_pick(W, t, label):
    return W.pick(t, "baits", "access", "targets", "antitargets", "cnr", "cns", label=label)


def ch_merge(W, t, info):
    ents = [_ga_pick(W, t, "mg.arg")]
    p = {"bp": t.choice([0, 1, 500, 5000], "mg.bp"), "stranded": t.chance(1, 3, "mg.stranded"),
         "combine": t.chance(1, 3, "mg.combine")}
    if p["combine"]:
        ents.append(W.pick(t, "combine", label="mg.cmb"))
    return ents, p


def run_merge(o, p, procs):
    return o[0].merge(bp=p["bp"], stranded=p.get("stranded", False),
                      combine=o[1] if p.get("combine") else None)


def ch_flatten(W, t, info):
    ents = [_ga_pick(W, t, "fl.arg")]
    p = {"combine": t.chance(1, 2, "fl.combine"),
         "split": t.choice([None, None, ["gene"]], "fl.split")}
    if p["combine"]:
        ents.append(W.pick(t, "combine", label="fl.cmb"))
    return ents, p


def run_flatten(o, p, procs):
    return o[0].flatten(combine=o[1] if p.get("combine") else None, split_columns=p.get("split"))


def ch_subtract(W, t, info):
    return [_ga_pick(W, t, "sb.a"), _ga_pick(W, t, "sb.b")], {}


def run_subtract(o, p, procs):
    return o[0].subtract(o[1])


def ch_intersection(W, t, info):
    return [_ga_pick(W, t, "is.a"), _ga_pick(W, t, "is.b")], {
        "mode": t.choice(["outer", "inner", "trim"], "is.mode")}


def run_intersection(o, p, procs):
    return o[0].intersection(o[1], mode=p["mode"])


def ch_subdivide(W, t, info):
    return [_ga_pick(W, t, "sd.arg")], {"avg": t.choice([200, 1000, 50000], "sd.avg"),
                                         "min": t.choice([0, 100], "sd.min")}


def run_subdivide(o, p, procs):
    return o[0].subdivide(p["avg"], p["min"])


def ch_resize(W, t, info):
    ents = [_ga_pick(W, t, "rs.arg")]
    p = {"bp": t.choice([100, -100, 5000, -300], "rs.bp"), "sizes": t.chance(1, 2, "rs.sizes")}
    if p["sizes"]:
        ents.append(W.pick(t, "sizes", label="rs.sz"))
    return ents, p


def run_resize(o, p, procs):
    return o[0].resize_ranges(p["bp"], o[1] if p["sizes"] else None)


def ch_by_arm(W, t, info):
    return [W.pick(t, "cnr", "cns", "targets", "tcov", label="ba.arg")], {
        "gap": t.choice([1e5, 1e5, 5e4, 2e4], "ba.gap"), "bins": t.choice([50, 50, 5, 20], "ba.bins")}


def run_by_arm(o, p, procs):
    return [(c, a) for c, a in o[0].by_arm(min_gap_size=p.get("gap", 1e5), min_arm_bins=p.get("bins", 50))]


def ch_by_gene(W, t, info):
    ents = [W.pick(t, "cnr", "tcov", label="bg.arg")]
    p = {"ignore": t.chance(1, 2, "bg.ignore"),
         "how": t.choice(["by_gene", "squash_genes", "gene_intervals"], "bg.how")}
    if p["ignore"]:
        ents.append(W.pick(t, "ignore", label="bg.ign"))
    return ents, p


def run_by_gene(o, p, procs):
    kw = {"ignore": o[1]} if p.get("ignore") else {}
    how = p.get("how", "by_gene")
    if how == "squash_genes":
        return o[0].squash_genes(**kw)
    if how == "gene_intervals":
        from cnvlib import reports
        return reports.get_gene_intervals(o[0], **kw)
    return [(g, a) for g, a in o[0].by_gene(**kw)]


def ch_shuffle(W, t, info):
    return [W.pick(t, "cnr", "cns", "targets", label="sh.arg")], {}


def run_shuffle(o, p, procs):
    c = o[0].copy()
    order = c.shuffle()
    shuffled = c.copy()
    c.sort()
    return order, shuffled, c


# ---- array methods beyond the quantifier's list ("every ... array method") and the
# ---- variant-driven steps ------------------------------------------------------


def ch_cna_method(W, t, info):
    which = t.choice(["smooth_log2", "residuals", "squash_genes", "drop_low_coverage", "guess_xx",
                      "shift_xx", "expect_flat_log2", "compare_sex", "autosomes", "by_chromosome",
                      "drop_extra_columns", "sort_columns", "add_concat", "nexus_basic", "filter_noop",
                      "filter_gene"], "cm.which")
    ents = [W.pick(t, "cnr", "tcov", "cns", label="cm.arg")]
    p = {"which": which, "hapx": t.chance(1, 2, "cm.hapx"),
         "parx": t.choice([None, "grch38"], "cm.parx"), "segments": False}
    if which == "residuals" and t.chance(2, 3, "cm.segs"):
        # segments with log2, or plain coordinate regions (the third documented form)
        ents.append(W.pick(t, "cns", label="cm.cns") if t.chance(1, 2, "cm.segs_kind")
                    else W.pick(t, "access", "targets", label="cm.regions"))
        p["segments"] = True
    if which == "add_concat":
        ents.append(W.pick(t, "cnr", "tcov", "acov", label="cm.other"))
    return ents, p


def run_cna_method(o, p, procs):
    a, w = o[0], p["which"]
    if w == "smooth_log2":
        return a.smooth_log2()
    if w == "residuals":
        return a.residuals(o[1] if p["segments"] else None)
    if w == "squash_genes":
        return a.squash_genes()
    if w == "drop_low_coverage":
        return a.drop_low_coverage()
    if w == "guess_xx":
        return a.guess_xx(p["hapx"], p["parx"], verbose=False)
    if w == "shift_xx":
        return a.shift_xx(p["hapx"], None, p["parx"])
    if w == "expect_flat_log2":
        return a.expect_flat_log2(p["hapx"], p["parx"])
    if w == "compare_sex":
        return a.compare_sex_chromosomes(p["hapx"], p["parx"])
    if w == "autosomes":
        return a.autosomes(p["parx"])
    if w == "by_chromosome":
        return list(a.by_chromosome())
    if w == "drop_extra_columns":
        return a.drop_extra_columns()
    if w == "sort_columns":
        c = a.copy()
        c.sort_columns()
        return c
    if w == "filter_noop":
        return a.filter()
    if w == "filter_gene":
        return a.filter(gene=str(a["gene"].iat[0])) if "gene" in a and len(a) else a.filter()
    if w == "nexus_basic":
        from cnvlib import export
        return export.export_nexus_basic(a)
    if w == "add_concat":
        c = a.copy()
        c.add(o[1])
        return c, a.concat([a, o[1]])
    raise ValueError(w)


def ch_ranges(W, t, info):
    which = t.choice(["by_ranges", "in_ranges", "into_ranges", "in_range", "iter_ranges_of", "cut",
                      "squash", "coords_labels"], "rg.which")
    a = W.pick(t, "cnr", "cns", "targets", "tcov", "varr", label="rg.a")
    b = _ga_pick(W, t, "rg.b")
    return [a, b], {"which": which, "mode": t.choice(["outer", "inner", "trim"], "rg.mode"),
                    "keep_empty": t.chance(1, 2, "rg.keep")}


def run_ranges(o, p, procs):
    a, b, w = o[0], o[1], p["which"]
    if w == "by_ranges":
        return [(tuple(r), sub) for r, sub in a.by_ranges(b, mode=p["mode"], keep_empty=p["keep_empty"])]
    if w == "in_ranges":
        return a.in_ranges(b.chromosome.iat[0], b.start[:5], b.end[:5], mode=p["mode"])
    if w == "into_ranges":
        col = next(c for c in ("log2", "alt_freq", "gene", "end") if c in a)
        return a.into_ranges(b, col, default=None)
    if w == "in_range":
        return a.in_range(b.chromosome.iat[0], int(b.start.iat[0]), int(b.end.iat[-1]), mode=p["mode"])
    if w == "iter_ranges_of":
        return [x for x in a.iter_ranges_of(b, "end", mode="inner" if p["mode"] == "inner" else "outer",
                                            keep_empty=p["keep_empty"])]
    if w == "cut":
        return a.cut(b)
    if w == "squash":
        return a.squash()
    if w == "coords_labels":
        return list(a.coords()), a.labels(), a.total_range_size()
    raise ValueError(w)


def ch_variants(W, t, info):
    which = t.choice(["baf_by_ranges", "het_frac_by_ranges", "heterozygous", "mirrored_baf",
                      "tumor_boost", "zygosity_from_freq", "theta_snps", "nexus_ogt"], "va.which")
    ents = [W.pick(t, "varr", label="va.varr")]
    if which in ("baf_by_ranges", "het_frac_by_ranges", "nexus_ogt"):
        ents.append(W.pick(t, "cnr", "cns", label="va.ranges"))
    return ents, {"which": which, "above_half": t.choice([None, True, False], "va.above"),
                  "tumor_boost": t.chance(1, 2, "va.boost")}


def run_variants(o, p, procs):
    v, w = o[0], p["which"]
    if w == "baf_by_ranges":
        return v.baf_by_ranges(o[1], above_half=p["above_half"], tumor_boost=p["tumor_boost"])
    if w == "het_frac_by_ranges":
        return v.het_frac_by_ranges(o[1])
    if w == "heterozygous":
        return v.heterozygous()
    if w == "mirrored_baf":
        return v.mirrored_baf(p["above_half"], p["tumor_boost"])
    if w == "tumor_boost":
        return v.tumor_boost()
    if w == "zygosity_from_freq":
        return v.zygosity_from_freq(0.25, 0.75)
    if w == "theta_snps":
        from cnvlib import export
        return export.export_theta_snps(v)
    if w == "nexus_ogt":
        from cnvlib import export
        return export.export_nexus_ogt(o[1], v, 0.0)
    raise ValueError(w)


OPS = {
    # name: (choose, run, kind of the result when it re-enters the world, weight, stochastic?)
    "target": (ch_target, run_target, "targets", 5, False),
    "antitarget": (ch_antitarget, run_antitarget, "antitargets", 3, False),
    "fix": (ch_fix, run_fix, "cnr", 4, True),
    "segment": (ch_segment, run_segment, "cns", 4, True),
    "segmetrics": (ch_segmetrics, run_segmetrics, "cns", 4, True),
    "call": (ch_call, run_call, "cns", 5, False),
    "genemetrics": (ch_genemetrics, run_genemetrics, None, 3, False),
    "breaks": (ch_breaks, run_breaks, None, 3, False),
    "bintest": (ch_bintest, run_bintest, None, 4, False),
    "metrics": (ch_metrics, run_metrics, None, 3, False),
    "export_bed": (ch_export_bed, run_export_bed, None, 2, False),
    "export_vcf": (ch_export_vcf, run_export_vcf, None, 3, False),
    "export_theta": (ch_export_theta, run_export_theta, None, 3, False),
    "export_seg": (ch_export_seg, run_export_seg, None, 1, False),
    "center_all": (ch_center, run_center, None, 2, False),
    "merge": (ch_merge, run_merge, None, 3, False),
    "flatten": (ch_flatten, run_flatten, None, 3, False),
    "subtract": (ch_subtract, run_subtract, None, 3, False),
    "intersection": (ch_intersection, run_intersection, None, 2, False),
    "subdivide": (ch_subdivide, run_subdivide, None, 2, False),
    "resize": (ch_resize, run_resize, None, 1, False),
    "by_arm": (ch_by_arm, run_by_arm, None, 2, False),
    "by_gene": (ch_by_gene, run_by_gene, None, 3, False),
    "shuffle_sort": (ch_shuffle, run_shuffle, None, 2, True),
    "cna_method": (ch_cna_method, run_cna_method, None, 4, False),
    "ranges": (ch_ranges, run_ranges, None, 3, False),
    "variants": (ch_variants, run_variants, None, 3, False),
}
OP_NAMES = list(OPS)


def _guarded(fn, objs, params, procs):
    """Run an operation; an exception is a result like any other."""
    from sim import ctx as C
    from sim import simpool

    try:
        return fn(objs, params, procs)
    except (C.SimCrash, simpool.HarnessError):
        raise
    except Exception as exc:  # noqa: BLE001
        return exc


def _ref_evaluate(req):
    """Runs in a pristine grandchild of the reference server."""
    from sim import digest as D

    opname, params, snaps = req
    objs = [pickle.loads(s) for s in snaps]
    if opname == "__write_bytes__":
        # what the writer puts on disk for this object in a process that has written nothing yet
        import tempfile
        from skgenome import tabio
        d = tempfile.mkdtemp(prefix="refw-", dir=os.environ.get("VERIF_SCRATCH"))
        try:
            path = os.path.join(d, "ref.out")
            tabio.write(objs[0], path, params.get("fmt", "tab"))
            with open(path, "rb") as fh:
                return ("bytes", fh.read())
        finally:
            shutil.rmtree(d, ignore_errors=True)
    res = _guarded(OPS[opname][1], objs, params, 1)
    return D.canon(res)


def warm():
    import cnvlib.segmentation  # noqa: F401
    from cnvlib import (antitarget, bintest, call, export, fix, metrics, reports,  # noqa: F401
                        segmetrics, target)
    _state["warm"] = True


# ---------------------------------------------------------------------------
# one simulated history


def run_one(tape, tier, opts):
    mode = opts.get("mode", "history")
    if mode == "w2":
        return run_w2(tape, tier, opts)
    return run_history(tape, tier, opts)


def _perturb_rng(tape, ctx):
    import random

    import numpy as np

    kind = tape.weighted([("none", 3), ("np_seed", 2), ("py_seed", 1), ("advance", 2), ("both", 1)],
                         "rng.perturb")
    if kind in ("np_seed", "both"):
        np.random.seed(tape.subseed("rng.np") % (1 << 32))
    if kind in ("py_seed", "both"):
        random.seed(tape.subseed("rng.py"))
    if kind == "advance":
        n = tape.between(1, 1000, "rng.adv")
        np.random.random(n)
        for _ in range(min(n, 50)):
            random.random()
    if kind != "none":
        ctx.event("rng.perturb", kind)
    return kind


def run_history(tape, tier, opts):
    import random
    import tempfile

    import numpy as np

    from sim import ctx as C
    from sim import digest as D
    from sim import refserver, simfs

    if not _state.get("warm"):
        warm()
    ctx = C.install(C.SimContext(tape, "C10"))
    rundir = tempfile.mkdtemp(prefix="c10-", dir=os.environ.get("VERIF_SCRATCH"))
    tempfile.tempdir = rundir
    ref = refserver.RefServer(_ref_evaluate)  # forked before anything else happens
    res = {"status": "ok", "population": "faultfree"}
    step_digests = []
    step_canons = []
    plan_steps = []
    derived_used = False
    rng_before_stochastic = False
    want_canon = bool(opts.get("want_canon"))
    info = None
    try:
        np.random.seed(tape.subseed("rng.init.np") % (1 << 32))
        random.seed(tape.subseed("rng.init.py"))
        W, info = build_world(tape, tier)
        # files for export_seg (written with pandas directly, not by the SUT)
        for i, e in enumerate(W.of("cns")):
            p = os.path.join(rundir, f"S{i + 1}.cns")
            e.obj.data.to_csv(p, sep="\t", index=False, float_format="%.6g")
            W.add("cnsfile", p, "initial", f"cnsfile{i}")
        file_snaps = {e.obj: open(e.obj, "rb").read() for e in W.of("cnsfile")}
        ctx.pool_cfg["scramble_workers"] = tape.chance(1, 2, "pool.scramble")
        ctx.worker_init.append(_worker_init)
        fault_pop = tape.chance(1, 4, "hist.fault_pop")
        # the quantifier bounds histories at 4 steps; longer ones are supersets (a violation is
        # minimised back), and they amortise the cost of building the world
        n_steps = tape.weighted([(1, 1), (2, 2), (3, 3), (4, 3), (6, 3)], "hist.len")
        if opts.get("steps"):
            n_steps = int(opts["steps"])
        # swarm: per-run operation mix (uniform / stochastic steps favoured / array methods favoured)
        profile = tape.weighted([("uniform", 3), ("stochastic", 2), ("arrays", 1)], "hist.profile")
        ARRAYS = ("merge", "flatten", "subtract", "intersection", "subdivide", "resize", "by_arm",
                  "by_gene", "cna_method", "ranges", "variants", "center_all")
        weights = [(nm, OPS[nm][3] * (4 if (profile == "stochastic" and OPS[nm][4])
                                      or (profile == "arrays" and nm in ARRAYS) else 1))
                   for nm in OP_NAMES]
        if fault_pop:
            # runs of the fault population spend most of their steps on pooled segmentation
            weights = [(nm, w * (12 if nm == "segment" else 1)) for nm, w in weights]
        ctx.probe("profile." + profile)
        writes = _WriteTracker(rundir, ctx)
        writes.ref = ref
        last = None
        done_steps = []
        step = 0
        while step < n_steps:
            step += 1
            pert = _perturb_rng(tape, ctx)
            repeat = bool(done_steps) and tape.chance(1, 4, "hist.repeat")
            again = None
            if repeat:
                # the same call once more: usually the previous one, sometimes an earlier one
                k = len(done_steps) - 1 - tape.weighted(
                    [(i, 3 if i == 0 else 1) for i in range(len(done_steps))], "hist.repeat_which")
                opname, ents, params = done_steps[k]
            else:
                opname = None
                if done_steps and tape.chance(1, 4, "hist.same_op"):
                    again = done_steps[-1][0]  # same operation, freshly drawn arguments
                    opname = again
                if opts.get("ops"):
                    forced = opts["ops"]
                    opname = forced[(step - 1) % len(forced)]
                for _try in range(4):
                    cand = opname or tape.weighted(weights + [("write", 4)], "hist.op")
                    if cand == "write":
                        chosen = _choose_write(W, tape, writes)
                    else:
                        chosen = OPS[cand][0](W, tape, info)
                    if chosen is not None and all(e is not None for e in chosen[0]):
                        opname = cand
                        ents, params = chosen
                        break
                    opname = None
                    again = None
                if opname is None:
                    opname = "by_arm"
                    ents, params = ch_by_arm(W, tape, info)
            ctx.probe("op." + opname)
            if any(e.origin != "initial" for e in ents):
                derived_used = True
                ctx.probe("op_on_derived." + opname)
            if repeat:
                ctx.probe("hist.repeat")
            pdesc = {k: v for k, v in params.items()}
            plan_steps.append({"op": opname, "args": [e.name for e in ents], "params": pdesc,
                               "rng": pert, "repeat": repeat})
            if opname == "write":
                _do_write_step(W, ents, params, writes, ctx, simfs, D)
                step_digests.append("write")
                last = None
                _check_args(W, D, opname, step)
                continue
            stochastic = OPS[opname][4]
            if stochastic and pert != "none":
                rng_before_stochastic = True
                ctx.probe("rng.perturbed_before_stochastic")
            objs = [e.obj for e in ents]
            npools0 = len(ctx.pools)
            # fault population: a pooled segmentation step may lose a worker or have a task
            # raise; the step then fails, or returns what the pristine process returns
            faulty = fault_pop and opname == "segment" and tape.chance(3, 4, "hist.fault_step")
            base_f = dict(ctx.faults)
            if faulty:
                ctx.pool_cfg["fault_kinds"] = tape.choice([("death",), ("exc",), ("death", "exc")],
                                                          "hist.fault_kinds")
                ctx.pool_cfg["fault_rate"] = (1, 2)
                ctx.pool_cfg["max_faults"] = 1
                ctx.pool_faults_fired = 0
            try:
                result = _guarded(OPS[opname][1], objs, params, None)
            finally:
                ctx.pool_cfg["fault_kinds"] = ()
            fired = sorted(k for k in ("pool.death", "pool.exc")
                           if ctx.faults.get(k, 0) > base_f.get(k, 0))
            if len(ctx.pools) > npools0:
                ctx.probe("op_under_pool." + opname)
            if fired and isinstance(result, Exception):
                # a loud failure under a fault is fine; nothing re-enters the world
                ctx.probe("fault.step_raised")
                res["population"] = "fault"
                _check_args(W, D, opname, step)
                step_digests.append("faulted")
                if want_canon:
                    step_canons.append(("faulted",))
                continue
            if fired:
                ctx.probe("fault.step_survived")
                res["population"] = "fault"
            got = D.canon(result)
            if isinstance(result, Exception):
                ctx.probe("op_raised." + opname)
            # A1: arguments (and every other object of the world) untouched
            _check_args(W, D, opname, step)
            # R1: refinement against the pristine process
            want = ref.eval((opname, params, [e.snap for e in ents]))
            d = D.diff(got, want)
            if d:
                how = "repeat of the previous call" if repeat else f"step {step}"
                raise Violation("R1", f"C10/R1/{opname}",
                                f"{opname}({', '.join(e.name for e in ents)}; {pdesc}) at {how} "
                                f"[rng perturbation: {pert}] differs from the pristine-process result: {d}; "
                                f"got {D.describe(got)}, pristine {D.describe(want)}")
            step_digests.append(D.digest(got))
            if want_canon:
                step_canons.append(got)
            # echo: the same call once more, straight away, under another RNG state (and,
            # for pooled steps, another schedule).  Always for the stochastic steps.
            if stochastic or tape.chance(1, 3, "hist.echo"):
                pert2 = _perturb_rng(tape, ctx)
                result2 = _guarded(OPS[opname][1], objs, params, None)
                d = D.diff(D.canon(result2), got)
                if d:
                    raise Violation("R1", f"C10/R1/{opname}/echo",
                                    f"{opname}({', '.join(e.name for e in ents)}; {pdesc}) called twice in a "
                                    f"row at step {step} [rng perturbation before the second call: {pert2}] "
                                    f"returned different results: {d}")
                _check_args(W, D, opname + "(echo)", step)
                ctx.probe("hist.echo")
                if stochastic and pert2 != "none":
                    ctx.probe("rng.perturbed_before_stochastic")
            # swap: the same step with one argument replaced by a sibling of the same kind
            # (checked against the pristine process), then the original call once more --
            # what a cache keyed too coarsely gets wrong
            if tape.chance(1, 2, "hist.swap"):
                cand = [(i, sib) for i, e in enumerate(ents) for sib in W.of(e.kind)
                        if sib.id != e.id and e.kind != "cnsfile"]
                ents_b, params_b = None, params
                if tape.chance(1, 2, "hist.swap_redraw"):
                    # the same operation with freshly drawn arguments AND options
                    chosen = OPS[opname][0](W, tape, info)
                    if chosen is not None and all(e is not None for e in chosen[0]):
                        ents_b, params_b = list(chosen[0]), chosen[1]
                elif cand:
                    i, sib = cand[tape.draw(len(cand), "hist.swap_which")]
                    ents_b = list(ents)
                    ents_b[i] = sib
                if ents_b is not None:
                    params, params_a = params_b, params
                    got_b = D.canon(_guarded(OPS[opname][1], [e.obj for e in ents_b], params, None))
                    want_b = ref.eval((opname, params, [e.snap for e in ents_b]))
                    d = D.diff(got_b, want_b)
                    if d:
                        raise Violation("R1", f"C10/R1/{opname}/swap",
                                        f"{opname}({', '.join(e.name for e in ents_b)}; {pdesc}) right after the "
                                        f"same step on ({', '.join(e.name for e in ents)}) differs from the "
                                        f"pristine-process result: {d}")
                    params = params_a
                    got_c = D.canon(_guarded(OPS[opname][1], objs, params, None))
                    d = D.diff(got_c, got)
                    if d:
                        raise Violation("R1", f"C10/R1/{opname}/swap_back",
                                        f"{opname}({', '.join(e.name for e in ents)}; {pdesc}) differs from its own "
                                        f"first result after the same step ran on ({', '.join(e.name for e in ents_b)}): {d}")
                    _check_args(W, D, opname + "(swap)", step)
                    ctx.probe("hist.swap")
            for o, e in zip(objs, ents):
                if result is o:
                    ctx.probe("result_is_argument." + opname)
            # scribble: an in-place array method on the RESULT (a column assignment and a meta
            # entry, both undone at once) must not reach any object of the world -- the step's
            # arguments are no longer even passed to that method
            if (getattr(result, "data", None) is not None and hasattr(result, "meta") and len(result)
                    and not any(result is e.obj for e in W.entries) and tape.chance(1, 2, "hist.scribble")):
                try:
                    result["_scribble"] = 1
                    result.meta["_scribble"] = 1
                except Exception:  # noqa: BLE001
                    pass
                else:
                    try:
                        _check_args(W, D, opname, step)
                    except Violation as v:
                        raise Violation("A2", f"C10/A2/{opname}/{v.key.rsplit('/', 1)[-1]}",
                                        f"an in-place column assignment on the array RETURNED by {opname}("
                                        f"{', '.join(e.name for e in ents)}; {pdesc}) changed an object of the "
                                        f"world: {v.message}")
                    result.data = result.data.drop(columns=["_scribble"])
                    result.meta.pop("_scribble", None)
                    ctx.probe("hist.scribble")
            rdata = getattr(result, "data", None)
            if rdata is not None:
                for e in W.entries:
                    if e.obj is not result and getattr(e.obj, "data", None) is rdata:
                        # not a violation of the property (the step left its argument alone), but
                        # an in-place edit of the result would now reach the argument
                        ctx.probe("alias.result_shares_frame." + opname)
                        ctx.note(f"{opname}: the returned array wraps the very DataFrame object of its {e.kind} argument "
                                 f"(an in-place edit of the result would reach the argument)")
            kind = OPS[opname][2]
            if kind and not isinstance(result, Exception):
                W.add(kind, result, f"step{step}", f"{opname}@{step}")
            last = (opname, ents, params)
            done_steps.append(last)
        for path, data in file_snaps.items():
            if open(path, "rb").read() != data:
                raise Violation("A1", "C10/A1/file", f"input file {os.path.basename(path)} was modified")
    except Violation as v:
        res.update(status="violation", clause=v.clause, key=v.key, message=v.message)
    finally:
        ref.close()
        ctx.close()
        tempfile.tempdir = None
        shutil.rmtree(rundir, ignore_errors=True)
    inter = [hashlib.blake2b(repr(s).encode(), digest_size=6).hexdigest()
             for s in ctx.interleavings if len(s[1]) > 1]
    opsig = [(s["op"], sorted((k, str(v)) for k, v in s["params"].items())) for s in plan_steps]
    nontrivial = len(plan_steps) >= 2 or bool(inter) or rng_before_stochastic or derived_used
    res.update({
        "plan": {"world": info, "steps": plan_steps},
        "schedule_digest": ctx.schedule_digest(),
        "result_digest": hashlib.blake2b("|".join(step_digests).encode(), digest_size=8).hexdigest(),
        "step_digests": step_digests,
        "faults": dict(ctx.faults), "probes": dict(ctx.probes),
        "sim_seconds": ctx.sim_seconds(), "interleavings": inter,
        "nontrivial": nontrivial,
        "config_class": "+".join(s["op"] for s in plan_steps),
        "case_sig": hashlib.blake2b(repr((opsig, inter, step_digests[:1])).encode(),
                                    digest_size=8).hexdigest(),
        "notes": ctx.notes[:5],
    })
    if want_canon:
        import base64
        res["step_canons_b64"] = base64.b64encode(pickle.dumps(step_canons)).decode()
    return res


def _worker_init(idx, scramble):
    if scramble is not None:
        import random

        import numpy as np
        np.random.seed(scramble % (1 << 32))
        random.seed(scramble)


def _check_args(W, D, opname, step):
    for e in W.entries:
        if e.kind == "cnsfile":
            continue
        if e.fp is not None and D.fingerprint(e.obj) == e.fp:
            continue  # bit-identical content: nothing to compare
        cur = D.canon(e.obj)
        d = D.diff(cur, e.base, rtol=0, atol=0)
        if d:
            raise Violation("A1", f"C10/A1/{opname}/{e.kind}",
                            f"after {opname} (step {step}) the shared object '{e.name}' ({e.kind}) no "
                            f"longer equals its snapshot: {d}")


# ---------------------------------------------------------------------------
# writers (fault-free, inside histories): W1


class _WriteTracker:
    def __init__(self, rundir, ctx):
        self.root = os.path.join(rundir, "out")
        os.makedirs(self.root, exist_ok=True)
        self.paths = {}
        self.ctx = ctx
        self.prepop_done = set()


PREPOP = ["none", "one", "consecutive", "gap", "unrelated", "gap+unrelated"]


def prepopulate(root, name, pattern, rng_bytes=b"old"):
    """Create pre-existing files around <root>/<name> according to `pattern`."""
    p = os.path.join(root, name)

    def put(path, tag):
        with open(path, "wb") as fh:
            fh.write(b"# pre-existing " + tag.encode() + b"\n" + rng_bytes + b"\n")

    if pattern == "none":
        return
    if pattern in ("one", "consecutive", "gap", "gap+unrelated"):
        put(p, "current")
    if pattern == "consecutive":
        put(p + ".1", "backup1")
        put(p + ".2", "backup2")
    if pattern in ("gap", "gap+unrelated"):
        put(p + ".1", "backup1")
        put(p + ".3", "backup3")
    if pattern in ("unrelated", "gap+unrelated"):
        put(os.path.join(root, "unrelated.txt"), "unrelated")
        put(p + ".bak", "bak")
        put(p + ".10", "backup10")


def _choose_write(W, tape, writes):
    e = W.pick(tape, "cnr", "cns", "targets", "antitargets", "tcov", "access", "baits", "ref", "varr",
               label="wr.arg")
    if e is None:
        return None
    prev = sorted(writes.paths)
    if prev and tape.chance(2, 3, "wr.samepath"):
        name = prev[tape.draw(len(prev), "wr.which")]
    else:
        name = tape.choice(["out.cnn", "sub/dir/out.cnn", "other.cns", "dbl//out.cnn", "./dot.cnn"],
                           "wr.path")
    prepop = tape.choice(PREPOP, "wr.prepop")
    # a third of the write steps go through a command that promises not to overwrite
    # (`cnvkit.py reference ... -o PATH`: ensure_path + tabio.write inside commands.py)
    via_cli = tape.chance(1, 3, "wr.cli")
    ents = [e]
    if via_cli:
        ents = [W.pick(tape, "tcov", label="wr.tcov"), W.pick(tape, "acov", label="wr.acov")]
    fmt = "tab" if via_cli else tape.weighted(
        [("tab", 5), ("bed", 1), ("bed3", 1), ("bed4", 1), ("interval", 1), ("text", 1), ("seg", 1)], "wr.fmt")
    return ents, {"name": name, "prepop": prepop, "cli": via_cli, "fmt": fmt,
                  "relative": tape.chance(1, 4, "wr.relative"),
                  "sweep": tape.chance(1, 2, "wr.sweep"), "times": tape.weighted(
        [(1, 3), (2, 2), (3, 2), (5, 1)], "wr.times")}


def check_w1(before, after, relname, new_bytes=None):
    """`before`/`after`: {relname: bytes}.  Returns message or None."""
    # every pre-existing (name, bytes) must survive under its own name or, for
    # the target path only, under a fresh numbered suffix -- injectively
    used = set()
    for name, data in before.items():
        if name != relname:
            if after.get(name) != data:
                return (f"pre-existing file {name!r} was "
                        f"{'removed' if name not in after else 'modified'}")
            used.add(name)
    if relname in before:
        data = before[relname]
        cands = [n for n in after
                 if n not in before and n not in used and n != relname and after[n] == data
                 and n.startswith(relname + ".") and n[len(relname) + 1:].isdigit()]
        if not cands:
            return (f"the pre-existing {relname!r} was not kept under a new numbered suffix "
                    f"(files now: {sorted(after)})")
        used.add(cands[0])
    if relname not in after:
        return f"{relname!r} does not exist after the write"
    if new_bytes is not None and after[relname] != new_bytes:
        return f"{relname!r} does not hold the newly written table"
    if len(after) != len(before) + 1:
        return (f"{len(before)} files before the write, {len(after)} after "
                f"(expected exactly one more): {sorted(before)} -> {sorted(after)}")
    return None


def _do_write_step(W, ents, params, writes, ctx, simfs, D):
    cwd0 = os.getcwd()
    try:
        return _do_write_step_inner(W, ents, params, writes, ctx, simfs, D)
    finally:
        os.chdir(cwd0)


def _do_write_step_inner(W, ents, params, writes, ctx, simfs, D):
    from cnvlib import core
    from skgenome import tabio

    root = writes.root
    name = params["name"]
    rel = os.path.normpath(name)  # how the file appears in a directory snapshot
    path = root + "/" + name      # the path shape handed to the SUT is kept as drawn
    if name not in writes.prepop_done:
        writes.prepop_done.add(name)
        pdir = os.path.dirname(os.path.join(root, rel))
        os.makedirs(pdir, exist_ok=True) if params["prepop"] != "none" else None
        if params["prepop"] != "none":
            prepopulate(pdir, os.path.basename(rel), params["prepop"])
    first = simfs.snapshot_dir(root)
    argv = None
    if params.get("relative"):
        # hand the SUT the path relative to the working directory
        os.chdir(root)
        path = name
        ctx.probe("write.relative_path")
    if params.get("cli"):
        from cnvlib import commands
        indir = os.path.join(os.path.dirname(root), "cli-in")
        os.makedirs(indir, exist_ok=True)
        tp = os.path.join(indir, "S1.targetcoverage.cnn")
        ap = os.path.join(indir, "S1.antitargetcoverage.cnn")
        ents[0].obj.data.to_csv(tp, sep="\t", index=False, float_format="%.6g")
        ents[1].obj.data.to_csv(ap, sep="\t", index=False, float_format="%.6g")
        argv = ["reference", tp, ap, "-o", path]
        ctx.probe("write.via_cli_reference")
    for _k in range(params.get("times", 1)):
        before = simfs.snapshot_dir(root)
        try:
            if argv:
                cargs = commands.parse_args(argv)
                cargs.func(cargs)
            else:
                core.ensure_path(path)
                tabio.write(ents[0].obj, path, params.get("fmt", "tab"))
        except (Exception, SystemExit) as exc:  # noqa: BLE001
            raise Violation("W1", "C10/W1/raises", f"write to {name} "
                            f"{'via cnvkit.py reference -o ' if argv else ''}raised {type(exc).__name__}: {exc}")
        after = simfs.snapshot_dir(root)
        msg = check_w1(before, after, rel)
        if not msg and _k and after.get(rel) != before.get(rel):
            # the same object written again: formatting is a pure function of the table
            msg = (f"write #{_k + 1} of the same object produced other bytes than write #{_k} "
                   f"({len(after.get(name, b''))} vs {len(before.get(name, b''))} bytes)")
        writes.paths[name] = writes.paths.get(name, 0) + 1
        if writes.paths[name] > 1:
            ctx.probe("write.repeated")
        if msg:
            raise Violation("W1", "C10/W1" + ("/cli" if argv else ""),
                            f"write #{writes.paths[name]} to {name} "
                            f"{'via cnvkit.py reference -o ' if argv else ''}"
                            f"(pre-populated: {params['prepop']}): {msg}")
    ctx.probe("write.prepop." + params["prepop"])
    # k writes leave k more files, and nothing that was there before is gone
    if len(after) != len(first) + params.get("times", 1):
        raise Violation("W1", "C10/W1/count", f"{params.get('times', 1)} writes to {name} left "
                                              f"{len(after) - len(first)} more files")
    suffixes = sorted(int(n[len(rel) + 1:]) for n in after
                      if n.startswith(rel + ".") and n[len(rel) + 1:].isdigit())
    if suffixes and suffixes[-1] > 1:
        ctx.probe("write.suffix_gt_1")
    if suffixes and suffixes != list(range(1, len(suffixes) + 1)):
        ctx.probe("write.suffix_gap")
    if not argv and getattr(writes, "ref", None) is not None:
        # R1 for writers: the bytes on disk equal what a pristine process writes for this object
        want = writes.ref.eval(("__write_bytes__", {"fmt": params.get("fmt", "tab")}, [ents[0].snap]))
        if isinstance(want, tuple) and want and want[0] == "bytes" and after.get(rel) != want[1]:
            raise Violation("R1", f"C10/R1/write/{params.get('fmt', 'tab')}",
                            f"the {params.get('fmt', 'tab')} file written for {ents[0].name} differs from the one "
                            f"a pristine process writes for the same object "
                            f"({len(after.get(rel) or b'')} vs {len(want[1])} bytes)")
        ctx.probe("write.bytes_vs_pristine")
    if not argv and params.get("sweep"):
        # format sweep: the written object and a table without a gene column, in every writer
        # format, twice each -- same bytes both times; A1 (checked by the caller) sees any change
        # made to the objects themselves
        sweep_dir = os.path.join(os.path.dirname(root), "sweep")
        os.makedirs(sweep_dir, exist_ok=True)
        plain = [e for e in W.entries if e.name in ("access", "access_unsorted")]
        for k, ent in enumerate([ents[0]] + plain):
            obj = ent.obj
            for fmt in ("tab", "bed", "bed3", "bed4", "interval", "text", "seg"):
                sp = os.path.join(sweep_dir, f"obj{k}.{fmt}")
                try:
                    tabio.write(obj, sp, fmt)
                    first_bytes = open(sp, "rb").read()
                    tabio.write(obj, sp, fmt)
                except Exception:  # noqa: BLE001  (a format that does not apply to this table)
                    ctx.probe("write.sweep_format_not_applicable")
                    continue
                if open(sp, "rb").read() != first_bytes:
                    raise Violation("W1", f"C10/W1/rewrite/{fmt}",
                                    f"writing the same object twice as {fmt} produced different bytes")
                if getattr(writes, "ref", None) is not None:
                    want = writes.ref.eval(("__write_bytes__", {"fmt": fmt}, [ent.snap]))
                    if isinstance(want, tuple) and want and want[0] == "bytes" and first_bytes != want[1]:
                        raise Violation("R1", f"C10/R1/write/{fmt}",
                                        f"the {fmt} file written for {ent.name} (after other tables had been "
                                        f"written in this process) differs from the one a pristine process writes")
        ctx.probe("write.format_sweep")
    if argv or params.get("fmt", "tab") != "tab":
        return
    # the written table reads back as the object's table
    try:
        back = tabio.read(path, into=type(ents[0].obj))
    except Exception as exc:  # noqa: BLE001
        raise Violation("W1", "C10/W1/readback", f"{name} cannot be read back: {exc}")
    if len(back) != len(ents[0].obj):
        raise Violation("W1", "C10/W1/readback",
                        f"{name} holds {len(back)} rows, the written object has {len(ents[0].obj)}")


# ---------------------------------------------------------------------------
# W2: exhaustive crash / error points of ensure_path + tabio.write


def run_w2(tape, tier, opts):
    """One scenario = (prepop pattern, path shape, number of writes k).  The
    k-th write is the faulted one; every interposed call is a crash point
    (before / after) and, where it can fail, an error point."""
    import tempfile

    from sim import ctx as C
    from sim import gen_bins as G
    from sim import simfs

    import cnvlib.core as core
    import skgenome.tabio as tabio_mod
    from skgenome import tabio

    ctx = C.install(C.SimContext(tape, "C10"))
    scen = opts["scenario"]
    only = opts.get("only")
    name = scen["name"]
    res = {"status": "ok", "population": "fault", "plan": {"scenario": scen, "only": only}}
    table = G.gen_cnr(tape, tier, max_chroms=2, size_classes=[(5, 1), (50, 1)], label="w2")
    cna = G.make_cna(table)
    base_tmp = tempfile.mkdtemp(prefix="c10w2-", dir=os.environ.get("VERIF_SCRATCH"))
    fs = simfs.FsSim(ctx)
    orig = (core.os, tabio_mod.os, getattr(tabio_mod, "open", None))
    core.os = simfs.OsProxy(fs)
    tabio_mod.os = core.os
    tabio_mod.open = simfs.make_open(fs)
    points = 0
    explored = []

    relative = bool(scen.get("relative"))

    def target(root):
        # relative scenario: the SUT is handed the bare name, with `root` as the working directory
        if relative:
            os.chdir(root)
            return name
        return os.path.join(root, name)

    def setup(tag):
        root = os.path.join(base_tmp, tag)
        os.makedirs(root)
        d = os.path.dirname(os.path.join(root, name))
        if scen["prepop"] != "none":
            os.makedirs(d, exist_ok=True)
            prepopulate(d, os.path.basename(name), scen["prepop"])
        fs.enabled = False
        for _ in range(scen["writes"] - 1):
            core.ensure_path(target(root))
            tabio.write(cna, target(root))
        fs.enabled = True
        return root

    def one_write(root):
        fs.reset_counter()
        core.ensure_path(target(root))
        tabio.write(cna, target(root))

    try:
        # reference execution: count the interposed calls of the k-th write
        root = setup("ref")
        before = simfs.snapshot_dir(root)
        one_write(root)
        calls = list(fs.calls)
        after = simfs.snapshot_dir(root)
        msg = check_w1(before, after, name)
        if msg:
            raise Violation("W1", "C10/W1", f"scenario {scen}: {msg}")
        new_bytes = after[name]
        res["plan"]["calls"] = [f"{n}:{nm}({b})" for n, nm, b in calls]
        plans = []
        for n, nm, _b in calls:
            plans.append((n, ("crash", "before")))
            plans.append((n, ("crash", "after")))
            if nm in simfs.ERRORABLE:
                for err in ("ENOSPC", "EIO", "EACCES"):
                    plans.append((n, ("error", err)))
        if only is not None:
            plans = [p for p in plans if [p[0], list(p[1])] == only or (p[0], p[1]) == tuple(only)]
        for i, (n, fault) in enumerate(plans):
            root = setup(f"p{i}")
            before = simfs.snapshot_dir(root)
            fs.plan = {n: fault}
            fs.fired = 0
            outcome = "completed"
            try:
                one_write(root)
            except C.SimCrash:
                outcome = "crashed"
            except OSError as exc:
                outcome = "oserror"
                if fault[0] != "error":
                    raise Violation("W2", f"C10/W2/unexpected_oserror",
                                    f"scenario {scen}, fault {fault} at call {n}: unexpected {exc!r}")
            finally:
                fs.plan = {}
                fs.crash_effects()
            points += 1
            ctx.probe(f"w2.{fault[0]}.{outcome}")
            state = simfs.snapshot_dir(root)
            msg = check_w2(before, state, name, new_bytes, outcome)
            if msg:
                raise Violation("W2", f"C10/W2/{fault[0]}",
                                f"scenario {scen}: {fault[0]} {fault[1]} call #{n} "
                                f"({calls[n][1]} {calls[n][2]}), write {outcome}: {msg}",
                                )
            # restart: a fault-free write must now satisfy W1, with whatever the
            # fault left behind treated as pre-existing
            fs.enabled = False
            try:
                core.ensure_path(target(root))
                tabio.write(cna, target(root))
            except Exception as exc:  # noqa: BLE001
                raise Violation("W2", "C10/W2/restart",
                                f"scenario {scen}: after {fault} at call #{n} the restarted write raised "
                                f"{type(exc).__name__}: {exc}")
            finally:
                fs.enabled = True
            after2 = simfs.snapshot_dir(root)
            msg = check_w1(state, after2, name, new_bytes)
            if msg:
                raise Violation("W2", "C10/W2/restart",
                                f"scenario {scen}: after {fault} at call #{n} ({calls[n][1]}), restarted "
                                f"write: {msg}")
            explored.append((n, fault))
            shutil.rmtree(root, ignore_errors=True)
    except Violation as v:
        res.update(status="violation", clause=v.clause, key=v.key, message=v.message)
        if "n" in dir() and "fault" in dir():
            res["opts"] = {"mode": "w2", "scenario": scen, "only": [n, list(fault)]}
            res["no_shrink"] = True
    finally:
        os.chdir("/")
        core.os, tabio_mod.os = orig[0], orig[1]
        if orig[2] is None:
            try:
                del tabio_mod.open
            except AttributeError:
                pass
        else:
            tabio_mod.open = orig[2]
        ctx.close()
        shutil.rmtree(base_tmp, ignore_errors=True)
    res.update({
        "schedule_digest": ctx.schedule_digest(),
        "result_digest": hashlib.blake2b(repr(explored).encode(), digest_size=8).hexdigest(),
        "faults": dict(ctx.faults), "probes": dict(ctx.probes), "sim_seconds": 0.0,
        "interleavings": [], "nontrivial": True, "points": points,
        "n_calls": len(res["plan"].get("calls", [])),
        "config_class": f"w2|{scen['prepop']}|k={scen['writes']}",
        "case_sig": hashlib.blake2b(repr(scen).encode(), digest_size=8).hexdigest(),
    })
    return res


def check_w2(before, state, relname, new_bytes, outcome):
    """After a crash / failed write: every file that existed before is still
    there byte-identically under its own name, or (the target only) under a
    fresh numbered suffix; at most the target path itself is partial."""
    for name, data in before.items():
        if name != relname and state.get(name) != data:
            return (f"pre-existing file {name!r} was "
                    f"{'lost' if name not in state else 'modified'}")
    if relname in before:
        data = before[relname]
        holders = [n for n in state if state[n] == data and
                   (n == relname or (n not in before and n.startswith(relname + ".")
                                     and n[len(relname) + 1:].isdigit()))]
        if not holders:
            return (f"the content of the pre-existing {relname!r} is gone "
                    f"(files now: {sorted(state)})")
    for name, data in state.items():
        if name in before and name != relname:
            continue
        if name == relname:
            if relname in before and data == before[relname]:
                continue
            if not new_bytes.startswith(data):
                return f"{relname!r} holds bytes that are neither the old nor a prefix of the new table"
            continue
        # a new name: must be the renamed old target
        if relname in before and data == before[relname] and name.startswith(relname + "."):
            continue
        return f"unexpected new file {name!r}"
    if outcome == "completed" and state.get(relname) != new_bytes:
        return f"write reported success but {relname!r} does not hold the table"
    return None


# ---------------------------------------------------------------------------
# extra phases: W2 enumeration and R2 hash-seed replicas


def w2_scenarios(tier):
    scen = []
    kmax = 3 if tier == "quick" else 5
    for prepop in PREPOP:
        for k in range(1, kmax + 1):
            for name in (["out.cnn", "sub/dir/out.cnn"] if k == 1 else ["out.cnn"]):
                scen.append({"prepop": prepop, "writes": k, "name": name})
    # the same through relative paths (bare file name in the working directory: ensure_path's
    # "no directory component" branch; and a relative sub-directory)
    for prepop in ("none", "one", "gap"):
        for k in (1, 2):
            for name in (["out.cnn", "sub/out.cnn"] if k == 1 else ["out.cnn"]):
                scen.append({"prepop": prepop, "writes": k, "name": name, "relative": True})
    return scen


def extra_phases(farm, tier, args, scratch, agg):
    from sim import digest as D
    from sim.runner import Farm
    from sim.tape import derive_seed

    out = {"violations": [], "harness_errors": []}
    # ---- W2 ----------------------------------------------------------------
    scen = w2_scenarios(tier)
    jobs = []
    for i, sc in enumerate(scen):
        jobs.append({"job": 20_000_000 + i, "seed": derive_seed(args.seed, "C10w2", i),
                     "opts": {"mode": "w2", "scenario": sc}})
    results = farm.map(jobs)
    points = 0
    calls_max = 0
    w2_probes = {}
    for j in jobs:
        r = results.get(j["job"])
        if r is None or r.get("status") == "harness_error":
            out["harness_errors"].append(r or {"message": "w2 job missing"})
            continue
        if r.get("status") == "violation":
            r.setdefault("opts", j["opts"])
            r["no_shrink"] = True
            out["violations"].append(r)
        points += int(r.get("points") or 0)
        calls_max = max(calls_max, int(r.get("n_calls") or 0))
        for k, v in (r.get("probes") or {}).items():
            w2_probes[k] = w2_probes.get(k, 0) + v
        for k, v in (r.get("faults") or {}).items():
            agg.faults[k] += v
    out["w2_scenarios"] = len(scen)
    out["w2_fault_points_enumerated"] = points
    out["w2_max_interposed_calls_per_write"] = calls_max
    out["w2_outcomes"] = dict(sorted(w2_probes.items()))
    out["w2_exhaustive_per_scenario"] = True
    out["evaluations"] = points
    out["distinct_nontrivial"] = 0
    out["samples"] = [{"w2_scenario": scen[0], "calls": (results.get(jobs[0]["job"]) or {}).get(
        "plan", {}).get("calls")}]

    # ---- R2: hash-seed replicas ---------------------------------------------
    # Every history of the search phase is executed once more in fresh interpreters
    # under another PYTHONHASHSEED and compared step by step with the hash-seed-0 run
    # (quick: all of them under one seed + a sample under a second one).
    ok_jobs = [j for j, d in sorted(agg.digests.items()) if d[0] is not None and j < 10_000_000
               and j in agg.step_digests]
    plans = [("1", ok_jobs if tier == "quick" else ok_jobs[:6000]),
             (str(2 + (args.seed * 7919) % 4000), ok_jobs[::max(1, len(ok_jobs) // (32 if tier == "quick" else 400))])]
    mismatches = 0
    compared = 0
    seeds_used = []
    for hs, sample in plans:
        if not sample:
            continue
        seeds_used.append(hs)
        f2 = Farm("C10", tier, len(farm.workers), scratch, hashseed=hs, tag=f"h{hs}-")
        try:
            rep = f2.map([{"job": j, "seed": agg.seeds[j], "want_tape": True} for j in sample])
            for j in sample:
                b = rep.get(j)
                a_status, a_steps = agg.step_digests[j]
                if not b or b.get("status") == "harness_error":
                    out["harness_errors"].append(b or {"message": "replica missing"})
                    continue
                compared += 1
                if agg.digests[j][0] != b.get("schedule_digest"):
                    out["harness_errors"].append({"message": (
                        f"schedule digest of seed {agg.seeds[j]} differs under PYTHONHASHSEED={hs}")})
                    continue
                if a_status == b.get("status") and (a_status != "ok" or a_steps == b.get("step_digests")):
                    continue
                # verdict or digests differ: fetch canonical results and compare with tolerance
                ra = farm.map([{"job": j, "seed": agg.seeds[j], "want_tape": True,
                                "opts": {"want_canon": True}}])[j]
                rb = f2.map([{"job": j, "seed": agg.seeds[j], "want_tape": True,
                              "opts": {"want_canon": True}}])[j]
                if ra.get("status") != rb.get("status"):
                    mismatches += 1
                    out["violations"].append(_r2_violation(agg.seeds[j], hs, "verdict differs", rb, ra))
                    continue
                if ra.get("status") != "ok":
                    continue
                d = _diff_canons(ra, rb, D)
                if d:
                    mismatches += 1
                    out["violations"].append(_r2_violation(agg.seeds[j], hs, d, rb, ra))
        finally:
            f2.close()
    sample = ok_jobs
    out["r2_hashseed_replicas"] = {"tapes": len(sample), "hashseeds": ["0"] + seeds_used,
                                   "comparisons": compared, "mismatches": mismatches}
    return out


def _diff_canons(ra, rb, D):
    import base64
    ca = pickle.loads(base64.b64decode(ra["step_canons_b64"]))
    cb = pickle.loads(base64.b64decode(rb["step_canons_b64"]))
    if len(ca) != len(cb):
        return f"{len(ca)} vs {len(cb)} steps"
    for i, (x, y) in enumerate(zip(ca, cb)):
        d = D.diff(x, y)
        if d:
            ops = [s["op"] for s in ra["plan"]["steps"] if s["op"] != "write"]
            return f"step {i + 1} ({ops[i] if i < len(ops) else '?'}): {d}"
    return None


def _r2_violation(seed, hs, d, rb, ra):
    ops = "+".join(s["op"] for s in (ra.get("plan") or {}).get("steps", []))
    first = d.split(":")[0] if isinstance(d, str) else "?"
    opname = first.split("(")[-1].rstrip(")") if "(" in first else ops
    return {"status": "violation", "clause": "R2", "key": f"C10/R2/{opname}",
            "message": f"history {ops} (seed {seed}) gives a different result under PYTHONHASHSEED={hs} "
                       f"than under PYTHONHASHSEED=0: {d}",
            "seed": seed, "tape": ra.get("tape") or rb.get("tape"), "plan": ra.get("plan"),
            "hashseed": hs, "no_shrink": True, "replay_kind": "r2",
            "schedule_digest": ra.get("schedule_digest"), "result_digest": rb.get("result_digest")}


def replay_special(doc, farm, scratch):
    """Replay of an R2 violation: run the tape under both hash seeds."""
    from sim import digest as D
    from sim.runner import Farm, EXIT_OK, EXIT_VIOLATION

    job = {"job": 0, "want_tape": True, "opts": {"want_canon": True}}
    if doc.get("tape"):
        job["tape"] = doc["tape"]
    else:
        job["seed"] = doc["seed"]
    rb = farm.map([job])[0]  # farm runs under the recorded hash seed
    f0 = Farm("C10", doc.get("tier", "quick"), 1, scratch, hashseed="0", tag="r0-")
    try:
        ra = f0.map([job])[0]
    finally:
        f0.close()
    d = _diff_canons(ra, rb, D) if ra.get("status") == rb.get("status") == "ok" else (
        None if ra.get("status") == rb.get("status") else "verdict differs")
    if d:
        print(f"  PYTHONHASHSEED=0 vs {doc.get('hashseed')}: {d}")
        print(f"VIOLATION property=C10 replay={os.path.abspath(doc.get('_path', ''))}")
        return EXIT_VIOLATION
    print("replay: results agree under both hash seeds")
    return EXIT_OK
