import importlib


def get(prop):
    return importlib.import_module("checks." + prop.lower())
