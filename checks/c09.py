"""C09 -- coverage reports mean per-base depth; same table for any number of
workers, any chunking of the regions file, any schedule, any clock.

One simulated run = one generated BAM + BED, the read-level reference model,
serial runs of both algorithms, and parallel runs under SimPool with a drawn
chunk size, worker count, schedule, clock behaviour and (fault population)
worker death / in-task exception / ENOSPC while chunking.
"""
import hashlib
import os
import shutil

RULE = (
    "each run draws (from one tape) a coordinate-sorted BAM (1-3 contigs, reads with soft clips, "
    "all flag combinations, MAPQ near the cut-off, reads aimed at bin edges and contig ends), a BED "
    "(3/4/6 columns; abutting, overlapping, zero-width, past-contig-end, duplicate lines; optional "
    "track header / comment lines), an algorithm, min_mapq, processes in 1..16, a BED chunk size, a "
    "SimPool schedule, a clock behaviour and, in the fault population, pool/FS faults. A run is "
    "non-trivial if at least one counted read overlaps a bin AND (a pool ran >1 task, or a fault "
    "fired, or the clock misbehaved); distinct = distinct (config class, pool interleaving hashes, "
    "fault kinds fired, workload digest) tuples, counted with a set."
)
COMPONENTS = {
    "real": ["cnvlib.coverage / cnvlib.parallel / cnvlib.samutil (working tree)", "skgenome.tabio",
             "pysam + htslib (bedcov, index, idxstats, fetch) in-process",
             "pandas / numpy", "forked worker processes (pickling, inherited state)",
             "real files on tmpfs (BAM, BAI, BED, BED chunk temp files)"],
    "simulated": ["ProcessPoolExecutor scheduling: worker choice, task durations, completion order, "
                  "parent/worker interleaving, worker death, exceptions around a task (SimPool)",
                  "failing I/O calls inside a worker task (pysam.bedcov / AlignmentFile raising "
                  "SamtoolsError, EIO, MemoryError at the armed task)",
                  "time.time() as seen by cnvlib.coverage (SimClock: tick, stall, jumps)",
                  "BED chunk size (tuning knob of parallel.to_chunks)",
                  "ENOSPC/EIO from mkstemp / write while chunking"],
    "stubbed_or_absent": ["no reference FASTA / CRAM path", "index freshness by mtime not varied"],
}
ASSUMPTIONS = [
    "reads have no deletions / skips (the cross-algorithm clause is stated for indel-free reads); insertions, "
    "which do not change the reference bases a read covers, are generated",
    "BED files fed to --count contain no '#'/blank lines (count mode rejects them; not quantified over)",
    "a chunk never consists of a 'track' header line alone (chunk size >= 2 when a header is present)",
    "SimPool models CPython 3.12 ProcessPoolExecutor (fork start method): eager map submission, "
    "ordered results, FIFO dispatch, BrokenProcessPool on worker death",
    "sampled, not exhaustive: a clean batch is evidence, not proof",
]

_state = {}


def warm():
    import functools

    import cnvlib.coverage as cov
    import cnvlib.parallel as par

    _state["cov"] = cov
    _state["par"] = par
    _state["functools"] = functools
    _state["orig_to_chunks"] = cov.to_chunks
    _state["orig_par_os"] = par.os
    _state["orig_par_tempfile"] = par.tempfile
    _state["orig_cov_pysam"] = cov.pysam
    cov.pysam = _PysamProxy(cov.pysam)


class _PysamProxy:
    """`pysam` as seen by cnvlib.coverage: the calls that do I/O inside a worker
    task are seams for in-task faults (armed per task by SimPool)."""

    def __init__(self, real):
        self._real = real

    def bedcov(self, *a, **k):
        from sim.simpool import maybe_inner_fault
        maybe_inner_fault("pysam.bedcov")
        return self._real.bedcov(*a, **k)

    def AlignmentFile(self, *a, **k):
        from sim.simpool import maybe_inner_fault
        maybe_inner_fault("pysam.AlignmentFile")
        return self._real.AlignmentFile(*a, **k)

    def __getattr__(self, name):
        return getattr(self._real, name)


class Violation(Exception):
    def __init__(self, clause, key, message):
        super().__init__(message)
        self.clause, self.key, self.message = clause, key, message


def _rows_of(cna):
    d = cna.data
    cols = list(d.columns)
    need = ["chromosome", "start", "end", "gene", "log2", "depth"]
    missing = [c for c in need if c not in cols]
    if missing:
        return None, f"missing columns {missing}; has {cols}"
    rows = list(zip(d["chromosome"].astype(str).tolist(), d["start"].tolist(), d["end"].tolist(),
                    d["gene"].astype(str).tolist(), d["depth"].astype(float).tolist(),
                    d["log2"].astype(float).tolist()))
    return rows, None


def _close(a, b):
    return a == b or abs(a - b) <= 1e-9 * max(1.0, abs(a), abs(b))


def _cmp_rows(got, want, ordered):
    """Compare row lists; unordered = as multisets.  Returns message or None."""
    if len(got) != len(want):
        return f"{len(got)} rows, expected {len(want)}"
    if not ordered:
        def keyf(r):
            return (r[0], r[1], r[2], r[3], round(r[4], 6))
        got = sorted(got, key=keyf)
        want = sorted(want, key=keyf)
    for i, (g, w) in enumerate(zip(got, want)):
        if g[:4] != w[:4]:
            return f"row {i}: bin {g[:4]} but expected {w[:4]}"
        if not _close(g[4], w[4]):
            return f"row {i} {g[:4]}: depth {g[4]!r}, expected {w[4]!r}"
        if not _close(g[5], w[5]):
            return f"row {i} {g[:4]}: log2 {g[5]!r}, expected {w[5]!r}"
    return None


def run_one(tape, tier, opts):
    from sim import ctx as C
    from sim import digest as D
    from sim import gen_bam as G
    from sim import simfs, simpool
    import tempfile

    if not _state:
        warm()
    cov, par = _state["cov"], _state["par"]
    ctx = C.install(C.SimContext(tape, "C09"))
    population = "fault" if tape.chance(2, 5, "population") else "faultfree"
    if opts.get("population"):
        population = opts["population"]
    wl = G.gen_workload(tape, tier)
    min_mapq = wl["min_mapq"]
    n_lines = G.n_data_lines(wl)
    primary_count = tape.chance(1, 2, "cov.by_count")
    processes = tape.weighted(
        [(2, 3), (3, 2), (16, 2), (tape.between(4, 15, "cov.p_mid"), 2), (1, 1)], "cov.processes")
    chunk_opts = [1, 2, 3, 7, max(1, n_lines), max(1, n_lines - 1), n_lines + 1, 5000,
                  max(1, (n_lines + 1) // 2)]
    chunk = tape.choice(chunk_opts, "cov.chunk")
    if chunk <= wl.get("n_header_lines", 0):
        chunk = wl["n_header_lines"] + 1  # a chunk must hold at least one bin (DESIGN 8.2 item 5)
    clock_mode = tape.weighted(
        [("normal", 5), ("stall", 2), ("jump_fwd", 1), ("jump_back", 1), ("mixed", 1)], "clock.mode")
    sut_indexes = tape.chance(1, 2, "bam.sut_indexes")
    both_parallel = tape.chance(1, 2, "cov.both_parallel")
    with_comments = wl["comments"]
    ctx.pool_cfg["scramble_workers"] = tape.chance(1, 3, "pool.scramble")
    fault_kind = None
    if population == "fault":
        fault_kind = tape.choice(["death", "exc", "fs", "inner", "death+exc", "inner+death"],
                                 "fault.family")

    rundir = tempfile.mkdtemp(prefix="c09-", dir=os.environ.get("VERIF_SCRATCH"))
    tempfile.tempdir = rundir
    fs = simfs.FsSim(ctx)
    par.os = simfs.OsProxy(fs)
    par.tempfile = simfs.TempfileProxy(fs)
    cov.to_chunks = _state["functools"].partial(par.to_chunks, chunk_size=chunk)
    ctx.worker_init.append(_worker_init(fs))

    plan = {
        "population": population, "contigs": wl["contigs"], "n_reads": len(wl["reads"]),
        "n_bins": n_lines, "bed_cols": wl["ncols"], "sorted_bed": wl["sorted_bed"],
        "track_header": wl["track_header"], "comments": with_comments, "min_mapq": min_mapq,
        "primary": "count" if primary_count else "pileup", "processes": processes,
        "chunk_size": chunk, "clock": clock_mode, "fault": fault_kind,
        "sut_indexes_bam": sut_indexes,
    }
    res = {"status": "ok", "population": population, "plan": plan}
    digests = []
    try:
        bam = os.path.join(rundir, "sample.bam")
        G.write_bam(wl, bam, index=not sut_indexes)
        bed_plain = os.path.join(rundir, "regions.bed")
        with open(bed_plain, "w") as fh:
            fh.write(G.bed_text(wl, False))
        bed_pile = bed_plain
        if with_comments:
            bed_pile = os.path.join(rundir, "regions.commented.bed")
            with open(bed_pile, "w") as fh:
                fh.write(G.bed_text(wl, True))
        model = G.model_table(wl, min_mapq)
        for k, v in G.workload_probes(wl, min_mapq).items():
            ctx.probe(k, v)
        counted_overlap = any(r[4] > 0 for r in model)
        if counted_overlap:
            ctx.probe("bin.has_counted_read")
        if any(r[4] == 0 for r in model):
            ctx.probe("bin.empty")

        def call(by_count, procs, tag):
            bed = bed_plain if by_count else bed_pile
            fs.reset_counter()
            mark = len(ctx.events)
            try:
                out = cov.do_coverage(bed, bam, by_count, min_mapq, procs)
            except C.SimCrash:
                raise
            except BaseException as exc:  # noqa: BLE001
                out, err = None, exc
            else:
                err = None
            if tag in ("serial", "parallel"):
                ctx._c09_reads = [ev[3] for ev in ctx.events[mark:] if ev[1] == "clock.read"]
            return out, err

        def algo_name(by_count):
            return "count" if by_count else "pileup"

        # ---- serial runs of both algorithms under the drawn clock -------------
        ctx.clock.mode = clock_mode
        serial = {}
        for by_count in (False, True):
            out, exc = call(by_count, 1, "serial")
            an = algo_name(by_count)
            if exc is not None:
                if clock_mode != "normal":
                    # tell a clock-induced failure from an ordinary one
                    ctx.clock.mode = "normal"
                    out2, exc2 = call(by_count, 1, "serial-normal-clock")
                    ctx.clock.mode = clock_mode
                    if exc2 is None:
                        raise Violation("D4", f"C09/D4/{_clock_kinds(ctx, clock_mode)}",
                                        f"{an} serial coverage raised {type(exc).__name__}: {exc} "
                                        f"under clock behaviour '{clock_mode}' but succeeds under a normal clock")
                raise Violation("D1", f"C09/D1/{an}/raises",
                                f"{an} serial coverage raised {type(exc).__name__}: {D.mask_text(exc)}")
            rows, err = _rows_of(out)
            if err:
                raise Violation("D1", f"C09/D1/{an}/columns", f"{an}: {err}")
            msg = _cmp_rows(rows, model, ordered=False)
            if msg:
                raise Violation("D1", f"C09/D1/{an}", f"{an} serial vs read-level model: {msg}")
            sid = out.meta.get("sample_id")
            if sid != "sample":
                raise Violation("D1", f"C09/D1/{an}/meta", f"{an}: sample_id {sid!r}")
            serial[by_count] = rows
            digests.append(D.digest(D.canon(out)))
        # ---- D2: the two algorithms agree -------------------------------------
        msg = _cmp_rows(serial[False], serial[True], ordered=False)
        if msg:
            raise Violation("D2", "C09/D2", f"pileup vs count: {msg}")

        # ---- the command-line path: parse_args -> _cmd_coverage -> .cnn file -------
        if tape.chance(1, 3, "cov.cli"):
            import pandas as pd
            from cnvlib import commands

            an = algo_name(primary_count)
            # a bare "-p" is documented as "use all available CPUs" (processes=0 -> every CPU)
            bare_p = tape.chance(1, 4, "cov.cli_bare_p")
            if bare_p:
                ctx.probe("cli.bare_p_all_cpus")

            def cli_run(tag, fault):
                outp = os.path.join(rundir, "cli-out-" + tag, "sample.targetcoverage.cnn")
                argv = ["coverage", bam, bed_plain if primary_count else bed_pile, "-o", outp,
                        "-q", str(min_mapq)] + (["-c"] if primary_count else []) + (
                            ["-p"] if bare_p else ["-p", str(processes)])
                shown = f"cnvkit.py coverage -q {min_mapq} -p {'' if bare_p else processes} " \
                        f"{'-c ' if primary_count else ''}chunk={chunk}"
                _arm_faults(ctx, fs, fault, primary_count, tape)
                fs.reset_counter()
                err = None
                try:
                    cargs = commands.parse_args(argv)
                    cargs.func(cargs)
                except C.SimCrash:
                    raise
                except BaseException as exc:  # noqa: BLE001 (SystemExit included)
                    err = exc
                fired = _faults_fired(ctx, fs)
                _disarm(ctx, fs)
                if err is not None:
                    if fired:
                        ctx.probe("cli.fault_call_raised")
                        return
                    raise Violation("D3", f"C09/D3/{an}/cli{'/bare_p' if bare_p else ''}",
                                    f"{shown} raised {type(err).__name__}: {D.mask_text(err)[:300]} "
                                    f"(do_coverage succeeds)")
                df = pd.read_csv(outp, sep="\t", na_filter=False, dtype={"chromosome": str, "gene": str})
                got = list(zip(df["chromosome"].tolist(), df["start"].tolist(), df["end"].tolist(),
                               df["gene"].tolist(), df["depth"].astype(float).tolist(),
                               df["log2"].astype(float).tolist()))
                want = serial[primary_count]
                msg = None
                if len(got) != len(want):
                    msg = f"{len(got)} rows in the .cnn file, expected {len(want)}"
                else:
                    for i, (g, w) in enumerate(zip(got, want)):
                        if g[:4] != w[:4]:
                            msg = f"row {i}: bin {g[:4]} but expected {w[:4]}"
                            break
                        if abs(g[4] - w[4]) > 1e-5 * max(1.0, abs(w[4])) or abs(g[5] - w[5]) > 1e-5 * max(1.0, abs(w[5])):
                            msg = f"row {i} {g[:4]}: depth/log2 {g[4:]} but do_coverage gave {w[4:]}"
                            break
                if msg:
                    clause = "F1" if fired else "D3"
                    raise Violation(clause, f"C09/{clause}/{an}/cli",
                                    f"{shown}{' after fault ' + str(fired) if fired else ''}: written table "
                                    f"differs from the serial do_coverage table: {msg}")
                ctx.probe("cli.fault_survived_correct_file" if fired else "cli.coverage_file_checked")

            cli_run("plain", None)
            if population == "fault" and tape.chance(1, 2, "cov.cli_fault"):
                # the same command with a fault in its parallel leg: it may fail, it must
                # not write a table that differs from the serial one
                cli_run("fault", fault_kind)

        # ---- parallel runs ----------------------------------------------------
        todo = [primary_count] + ([not primary_count] if both_parallel else [])
        for by_count in todo:
            an = algo_name(by_count)
            faulty = population == "fault"
            _arm_faults(ctx, fs, fault_kind if faulty else None, by_count, tape)
            npools0 = len(ctx.pools)
            out, exc = call(by_count, processes, "parallel")
            fired = _faults_fired(ctx, fs)
            _note_chunks(ctx, fs, n_lines, chunk, by_count, processes)
            _disarm(ctx, fs)
            if len(ctx.pools) > npools0 and processes > 1:
                ctx.probe("parallel.pool_used")
            if exc is not None:
                if not fired:
                    if clock_mode != "normal":
                        ctx.clock.mode = "normal"
                        out2, exc2 = call(by_count, processes, "parallel-normal-clock")
                        ctx.clock.mode = clock_mode
                        if exc2 is None:
                            raise Violation("D4", f"C09/D4/{_clock_kinds(ctx, clock_mode)}",
                                            f"{an} parallel coverage raised {type(exc).__name__}: {exc} "
                                            f"under clock '{clock_mode}' only")
                    raise Violation("D3", f"C09/D3/{an}/raises",
                                    f"{an} with processes={processes} chunk={chunk} raised "
                                    f"{type(exc).__name__}: {D.mask_text(exc)} (serial run succeeds)")
                ctx.probe("fault.call_raised")
                res.setdefault("fault_outcomes", []).append(type(exc).__name__)
            else:
                rows, err = _rows_of(out)
                if err:
                    raise Violation("D3", f"C09/D3/{an}/columns", f"{an} parallel: {err}")
                msg = _cmp_rows(rows, serial[by_count], ordered=True)
                if msg:
                    clause = "F1" if fired else "D3"
                    raise Violation(clause, f"C09/{clause}/{an}",
                                    f"{an} processes={processes} chunk={chunk}"
                                    f"{' after fault ' + str(fired) if fired else ''}: table differs "
                                    f"from the serial table: {msg}")
                if fired:
                    ctx.probe("fault.call_returned_correct_table")
                digests.append(D.digest(D.canon(out)))
            if fired:
                # progress once faults stop: a fault-free retry on the same files
                out, exc = call(by_count, processes, "retry")
                _note_chunks(ctx, fs, n_lines, chunk, by_count, processes)
                if exc is not None:
                    raise Violation("F1", f"C09/F1/{an}/retry",
                                    f"{an}: fault-free retry after {fired} raised "
                                    f"{type(exc).__name__}: {D.mask_text(exc)}")
                rows, err = _rows_of(out)
                msg = err or _cmp_rows(rows, serial[by_count], ordered=True)
                if msg:
                    raise Violation("F1", f"C09/F1/{an}/retry",
                                    f"{an}: fault-free retry after {fired} differs from serial: {msg}")
                ctx.probe("fault.retry_ok")
        # ---- another cut-off on the same files in the same process, then the first again -----
        if tape.chance(1, 2, "cov.second_config"):
            mq2 = tape.choice([q for q in (0, 1, 10, 30, 60) if q != min_mapq], "cov.min_mapq2")
            model2 = G.model_table(wl, mq2)
            save_mq = min_mapq
            for by_count in (primary_count, not primary_count):
                an = algo_name(by_count)
                procs2 = processes if tape.chance(1, 2, "cov.second_parallel") else 1
                bed = bed_plain if by_count else bed_pile
                for (mq, want, what) in ((mq2, model2, f"-q {mq2} after -q {save_mq}"),
                                         (save_mq, None, f"-q {save_mq} again after -q {mq2}")):
                    try:
                        out = cov.do_coverage(bed, bam, by_count, mq, procs2)
                    except C.SimCrash:
                        raise
                    except BaseException as exc:  # noqa: BLE001
                        raise Violation("D1", f"C09/D1/{an}/second_call/raises",
                                        f"{an} {what} (processes={procs2}) raised {type(exc).__name__}: "
                                        f"{D.mask_text(exc)[:300]}")
                    rows, err = _rows_of(out)
                    msg = err or (_cmp_rows(rows, want, ordered=False) if want is not None
                                  else _cmp_rows(rows, serial[by_count], ordered=True))
                    if msg:
                        raise Violation("D1", f"C09/D1/{an}/second_call",
                                        f"{an} {what} in the same process (processes={procs2}): {msg}")
                ctx.probe("second_config.checked")
    except Violation as v:
        res.update(status="violation", clause=v.clause, key=v.key, message=v.message)
    finally:
        ctx.close()
        cov.to_chunks = _state["orig_to_chunks"]
        par.os = _state["orig_par_os"]
        par.tempfile = _state["orig_par_tempfile"]
        tempfile.tempdir = None
        shutil.rmtree(rundir, ignore_errors=True)

    inter = [hashlib.blake2b(repr(s).encode(), digest_size=6).hexdigest()
             for s in ctx.interleavings if len(s[1]) > 1]
    multi = any(len(s[1]) > 1 for s in ctx.interleavings)
    nontrivial = bool(ctx.probes.get("bin.has_counted_read")) and (
        multi or bool(ctx.faults) or clock_mode != "normal")
    cfg_class = (f"{plan['primary']}|p={_pclass(processes)}|chunks={_cclass(chunk, n_lines)}|"
                 f"clock={clock_mode}|{population}:{fault_kind}")
    wl_sig = hashlib.blake2b(repr((wl["contigs"], len(wl["reads"]), wl["rows"][:8])).encode(),
                             digest_size=6).hexdigest()
    res.update({
        "schedule_digest": ctx.schedule_digest(),
        "result_digest": hashlib.blake2b("|".join(digests).encode(), digest_size=8).hexdigest(),
        "faults": dict(ctx.faults), "probes": dict(ctx.probes),
        "sim_seconds": ctx.sim_seconds(), "interleavings": inter,
        "nontrivial": nontrivial, "config_class": cfg_class,
        "case_sig": hashlib.blake2b(repr((cfg_class, inter, sorted(ctx.faults), wl_sig)).encode(),
                                    digest_size=8).hexdigest(),
        "notes": ctx.notes[:5],
    })
    return res


def _clock_kinds(ctx, mode):
    """Classify a clock-induced failure by the elapsed time the SUT saw."""
    vals = ctx._c09_reads
    if len(vals) >= 2:
        el = vals[-1] - vals[0]
        return "elapsed_zero" if el == 0 else ("elapsed_negative" if el < 0 else "elapsed_positive")
    return mode


def _pclass(p):
    return str(p) if p in (1, 2, 3, 16) else "4-15"


def _cclass(chunk, n):
    if chunk >= 5000:
        return "default"
    if chunk > n:
        return "single"
    if chunk == n:
        return "exact1"
    return "multi-exact" if n % chunk == 0 else "multi"


def _worker_init(fs):
    def init(idx, scramble):
        fs.enabled = False
        if scramble is not None:
            import random

            import numpy as np
            np.random.seed(scramble % (1 << 32))
            random.seed(scramble)
    return init


def _arm_faults(ctx, fs, kind, by_count, tape):
    ctx.pool_faults_fired = 0
    ctx._c09_fault_base = dict(ctx.faults)
    if kind is None:
        return
    if kind in ("death", "exc", "death+exc", "inner", "inner+death"):
        ctx.pool_cfg["fault_kinds"] = tuple(kind.split("+"))
        ctx.pool_cfg["inner_excs"] = ("samtools", "oserror", "memory")
        ctx.pool_cfg["fault_rate"] = (1, 3)
        ctx.pool_cfg["max_faults"] = 1
    elif kind == "fs":
        if by_count:
            # count mode writes no chunk files; use a pool fault instead
            ctx.pool_cfg["fault_kinds"] = ("death",)
            ctx.pool_cfg["fault_rate"] = (1, 3)
        else:
            fs.rate = (1, 6, ("ENOSPC", "EIO"))
            fs.max_faults = 1
            fs.fired = 0


def _disarm(ctx, fs):
    ctx.pool_cfg["fault_kinds"] = ()
    fs.rate = None


def _faults_fired(ctx, fs):
    base = getattr(ctx, "_c09_fault_base", {})
    out = []
    for k in sorted(ctx.faults):
        if k.startswith(("pool.death", "pool.exc", "pool.inner", "fs.error", "fs.crash")):
            if ctx.faults[k] > base.get(k, 0):
                out.append(k)
    return out


def _note_chunks(ctx, fs, n_lines, chunk, by_count, processes):
    if by_count or processes == 1:
        return
    n_tmp = sum(1 for _n, name, _b in fs.calls if name == "mkstemp")
    if n_tmp > 1:
        ctx.probe("chunks.multi")
    if n_lines % chunk == 0:
        ctx.probe("chunks.exact_multiple")
    if any(name == "unlink" for _n, name, _b in fs.calls):
        ctx.probe("chunks.unlinked")
