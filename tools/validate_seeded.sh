#!/bin/bash
# usage: tools/validate_seeded.sh <id> <agent-worktree> <PROP> [extra ./check args...]
# Confirms an independently written property-breaking change in a fresh scratch
# worktree (applies cleanly, baseline tests unchanged, demo fails with / passes
# without), stores it under /verif/seeded/<id>/, then runs the owning check on it.
set -u
ID="$1"; WT="$2"; PROP="$3"; shift 3
VERIF=/verif
DST=$VERIF/seeded/$ID
mkdir -p "$DST"
cp "$WT/mutant/patch.diff" "$DST/patch.diff" || exit 2
cp "$WT/mutant/demo.py" "$DST/demo.py" || exit 2
cp "$WT/mutant/meta.json" "$DST/agent_meta.json" 2>/dev/null
SCR=/tmp/seedchk-$ID
git -C /repo worktree remove --force "$SCR" 2>/dev/null
git -C /repo worktree add -q "$SCR" HEAD || exit 2
cd "$SCR" || exit 2
mkdir -p mutant && cp "$DST/demo.py" mutant/demo.py
echo "== demo on clean tree"
PYTHONPATH="$SCR" timeout 600 /venv/bin/python mutant/demo.py > "$DST/demo_clean.log" 2>&1; DEMO_CLEAN=$?
git apply "$DST/patch.diff" || { echo "patch does not apply"; exit 2; }
echo "== demo on changed tree"
PYTHONPATH="$SCR" timeout 600 /venv/bin/python mutant/demo.py > "$DST/demo_changed.log" 2>&1; DEMO_CHANGED=$?
echo "== baseline tests on changed tree"
timeout 1800 /venv/bin/python -m pytest -q -p no:cacheprovider --timeout=900 > "$DST/tests_changed.log" 2>&1
TESTS=$(tail -1 "$DST/tests_changed.log")
FAILED=$(grep -c '^FAILED' "$DST/tests_changed.log")
echo "demo clean=$DEMO_CLEAN changed=$DEMO_CHANGED; tests: $TESTS"
grep '^FAILED' "$DST/tests_changed.log" | sed 's/ - .*//' | sort > "$DST/tests_failed.txt"
echo "== check $PROP on changed tree"
cd $VERIF
VERIF_REPO="$SCR" ./check "$PROP" --tier quick --no-evidence "$@" > "$DST/check_quick.log" 2>&1; CHK=$?
grep -E "clause=|VIOLATION|KNOWN|HARNESS|simulated runs" "$DST/check_quick.log" | head -12
REPLAY=$(grep -m1 '^VIOLATION' "$DST/check_quick.log" | sed 's/.*replay=//')
if [ -n "$REPLAY" ] && [ -f "$REPLAY" ]; then
  cp "$REPLAY" "$DST/replay.json"
  VERIF_REPO="$SCR" ./check "$PROP" --replay "$DST/replay.json" > "$DST/replay.log" 2>&1; RPL=$?
  ./check "$PROP" --replay "$DST/replay.json" > "$DST/replay_clean.log" 2>&1; RPLC=$?
else RPL=-1; RPLC=-1; fi
echo "check exit=$CHK replay(changed)=$RPL replay(clean)=$RPLC"
cat > "$DST/validation.json" <<EOT
{"id": "$ID", "property": "$PROP", "demo_exit_clean": $DEMO_CLEAN, "demo_exit_changed": $DEMO_CHANGED,
 "tests_changed_summary": "$TESTS", "tests_failed_count": $FAILED,
 "check_quick_exit": $CHK, "replay_exit_changed": $RPL, "replay_exit_clean": $RPLC,
 "ran": ["git worktree add $SCR HEAD", "python mutant/demo.py (clean, changed)", "git apply patch.diff", "python -m pytest -q -p no:cacheprovider --timeout=900", "VERIF_REPO=$SCR ./check $PROP --tier quick --no-evidence $*", "./check $PROP --replay replay.json (changed, clean)"]}
EOT
git -C /repo worktree remove --force "$SCR"
rm -rf "$SCR"
