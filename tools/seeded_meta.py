#!/venv/bin/python
"""Build seeded/<id>/meta.json from agent_meta.json + validation.json + check logs,
and regenerate the table in seeded/README.md.  usage: tools/seeded_meta.py [id ...]"""
import glob
import json
import os
import re
import sys

ROOT = os.path.join(os.path.dirname(os.path.abspath(__file__)), "..", "seeded")


def clauses(path):
    if not os.path.exists(path):
        return []
    out = []
    for ln in open(path, errors="replace"):
        m = re.search(r"clause=(\S+) key=(\S+)", ln)
        if m and m.group(0) not in out:
            out.append(m.group(0))
    return out


def build(d):
    sid = os.path.basename(d)
    val = json.load(open(os.path.join(d, "validation.json")))
    am = {}
    p = os.path.join(d, "agent_meta.json")
    if os.path.exists(p):
        am = json.load(open(p))
    old = {}
    p = os.path.join(d, "meta.json")
    if os.path.exists(p):
        old = json.load(open(p))
    failed = [ln.strip() for ln in open(os.path.join(d, "tests_failed.txt"))] if os.path.exists(
        os.path.join(d, "tests_failed.txt")) else []
    env6 = {"test_smooth_log2", "test_autobin", "test_batch", "test_coverage",
            "test_diploid_parx_genome", "test_cbs"}
    names = {f.split("::")[-1] for f in failed}
    first = clauses(os.path.join(d, "check_quick.log"))
    after = clauses(os.path.join(d, "check_quick_after.log"))
    meta = {
        "id": sid, "property": val["property"],
        "summary": am.get("summary", old.get("summary")),
        "needs": am.get("needs", old.get("needs")),
        "files": am.get("files", old.get("files")),
        "written_by": "independent sub-agent given only the property text (plus a one-line angle to "
                      "keep contributions diverse) and a scratch worktree",
        "confirmed": {
            "patch_applies_to_clean_HEAD": True,
            "demo_exit_clean_tree": val["demo_exit_clean"],
            "demo_exit_changed_tree": val["demo_exit_changed"],
            "baseline_suite_on_changed_tree": val["tests_changed_summary"],
            "baseline_failures_are_the_6_environmental": names == env6,
        },
        "check": {
            "command": "VERIF_REPO=<scratch worktree with patch applied> ./check %s --tier quick" % val["property"],
            "exit": val["check_quick_exit"],
            "clauses_reported": first,
            "replay_on_changed_tree_exit": val["replay_exit_changed"],
            "replay_on_clean_tree_exit": val["replay_exit_clean"],
        },
        "ran": val["ran"],
        "note": old.get("note"),
    }
    if os.path.exists(os.path.join(d, "check_quick_after.log")):
        rv = {}
        rp = os.path.join(d, "recheck.json")
        if os.path.exists(rp):
            rv = json.load(open(rp))
        meta["check_after_strengthening"] = {"clauses_reported": after, **rv}
    json.dump(meta, open(os.path.join(d, "meta.json"), "w"), indent=1)
    return meta


def main():
    ids = sys.argv[1:]
    dirs = sorted(glob.glob(os.path.join(ROOT, "*", "validation.json")))
    metas = []
    for v in dirs:
        d = os.path.dirname(v)
        if not ids or os.path.basename(d) in ids or not os.path.exists(os.path.join(d, "meta.json")):
            metas.append(build(d))
        else:
            metas.append(json.load(open(os.path.join(d, "meta.json"))))
    rows = []
    for m in metas:
        cl = sorted({c.split()[0].split("=")[1] for c in m["check"]["clauses_reported"]})
        status = "caught" if m["check"]["exit"] == 1 else "MISSED"
        if "check_after_strengthening" in m:
            ca = sorted({c.split()[0].split("=")[1] for c in m["check_after_strengthening"]["clauses_reported"]})
            status += " -> caught after strengthening" if ca else " -> still missed"
            cl = cl or ca
        needs = (m.get("needs") or "").replace("\n", " ").replace("|", "/")
        rows.append(f"| {m['id']} | {m['property']} | {needs[:160]} | {status} | {', '.join(cl)} |")
    readme = os.path.join(ROOT, "README.md")
    txt = open(readme).read()
    head, _, rest = txt.partition("| id | property |")
    tail = rest.split("\n\n", 1)[1] if "\n\n" in rest else ""
    table = "| id | property | needs (abridged) | quick check | clauses |\n|---|---|---|---|---|\n" + "\n".join(rows)
    open(readme, "w").write(head + table + "\n\n" + tail)
    print(f"{len(metas)} seeded changes; "
          f"{sum(1 for m in metas if m['check']['exit'] == 1)} caught by the check version they were first run against")


if __name__ == "__main__":
    main()
