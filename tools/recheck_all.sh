#!/bin/bash
# usage: tools/recheck_all.sh [id-prefix ...]
# Regression over seeded/: every stored change is applied to a scratch worktree and the owning
# check (current /verif, quick tier, VERIF_SEED from the environment) must report a violation.
# Writes seeded/regression_last.json; does not touch the per-change logs.
cd /verif || exit 2
OUT=/verif/seeded/regression_last.json
TMP=$(mktemp -d /dev/shm/recheck-all.XXXX)
echo "[" > "$TMP/out.json"; first=1; missed=0; total=0
for d in seeded/*/; do
  id=$(basename "$d")
  [ -f "$d/patch.diff" ] || continue
  if [ $# -gt 0 ]; then ok=0; for p in "$@"; do case "$id" in $p*) ok=1;; esac; done; [ $ok = 1 ] || continue; fi
  prop=$(/venv/bin/python -c "import json;print(json.load(open('$d/meta.json'))['property'])")
  SCR=/tmp/seedall-$id
  git -C /repo worktree remove --force "$SCR" 2>/dev/null
  git -C /repo worktree add -q --detach "$SCR" HEAD || continue
  ( cd "$SCR" && git apply "/verif/$d/patch.diff" ) || { echo "$id: patch does not apply"; git -C /repo worktree remove --force "$SCR"; continue; }
  t0=$(date +%s)
  VERIF_REPO="$SCR" ./check "$prop" --tier quick --no-evidence --no-shrink > "$TMP/$id.log" 2>&1; rc=$?
  dt=$(( $(date +%s) - t0 ))
  cl=$(grep -o "clause=[A-Z0-9]* key=[^ ]*" "$TMP/$id.log" | head -3 | tr '\n' ';')
  total=$((total+1)); [ $rc = 1 ] || missed=$((missed+1))
  echo "$id $prop exit=$rc ${dt}s $cl"
  [ $first = 1 ] || echo "," >> "$TMP/out.json"; first=0
  echo "{\"id\": \"$id\", \"property\": \"$prop\", \"exit\": $rc, \"wall_s\": $dt, \"clauses\": \"$cl\"}" >> "$TMP/out.json"
  git -C /repo worktree remove --force "$SCR"; rm -rf "$SCR"
done
echo "]" >> "$TMP/out.json"
cp "$TMP/out.json" "$OUT"; rm -rf "$TMP"
echo "regression: $((total-missed))/$total seeded changes reported (seed ${VERIF_SEED:-1}, verif $(git -C /verif rev-parse --short HEAD))"
[ $missed = 0 ]
