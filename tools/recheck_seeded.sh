#!/bin/bash
# usage: tools/recheck_seeded.sh <id> <PROP> [extra ./check args]
# Re-runs the owning check (current /verif) against an already confirmed seeded
# change in a fresh scratch worktree; stores check_quick_after.log, replay_after.json.
set -u
ID="$1"; PROP="$2"; shift 2
DST=/verif/seeded/$ID
SCR=/tmp/seedre-$ID
git -C /repo worktree remove --force "$SCR" 2>/dev/null
git -C /repo worktree add -q --detach "$SCR" HEAD || exit 2
( cd "$SCR" && git apply "$DST/patch.diff" ) || { echo "patch does not apply"; exit 2; }
cd /verif
VERIF_REPO="$SCR" ./check "$PROP" --tier quick --no-evidence "$@" > "$DST/check_quick_after.log" 2>&1; CHK=$?
grep -E "clause=|VIOLATION|HARNESS|simulated runs" "$DST/check_quick_after.log" | cut -c1-220 | head -8
REPLAY=$(grep -m1 '^VIOLATION' "$DST/check_quick_after.log" | sed 's/.*replay=//')
RPL=-1; RPLC=-1
if [ -n "$REPLAY" ] && [ -f "$REPLAY" ]; then
  cp "$REPLAY" "$DST/replay_after.json"
  VERIF_REPO="$SCR" ./check "$PROP" --replay "$DST/replay_after.json" > "$DST/replay_after.log" 2>&1; RPL=$?
  ./check "$PROP" --replay "$DST/replay_after.json" > "$DST/replay_after_clean.log" 2>&1; RPLC=$?
fi
echo "{\"exit\": $CHK, \"replay_on_changed_tree_exit\": $RPL, \"replay_on_clean_tree_exit\": $RPLC, \"verif_commit\": \"$(git -C /verif rev-parse --short HEAD)\"}" > "$DST/recheck.json"
echo "recheck exit=$CHK replay(changed)=$RPL replay(clean)=$RPLC"
git -C /repo worktree remove --force "$SCR"; rm -rf "$SCR"
